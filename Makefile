# setup: nothing is fetched; regenerates the shim header and checks the tools.
setup:
	python3 symgmp/gen_gmp_h.py symgmp/gmp.h
	@which z3 g++ python3 >/dev/null
	@test -f /usr/include/z3++.h
	python3 lib/gen_manifest.py
	@echo setup ok
.PHONY: setup
