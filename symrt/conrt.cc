// Concrete replay runtime: the same harness sources compiled against the real
// GMP and a real-GMP build of /repo/src.  Inputs come from a replay file; the
// oracle formulas become ground in the inputs and are decided by z3 over the
// remaining (fresh, universally quantified) point variables.
#include "symrt.hh"
#include <cstdio>
#include <cstdlib>
#include <cstring>
#include <fstream>
#include <iostream>
#include <map>
#include <sstream>

using z3::expr;
namespace symrt {
static z3::context* g_ctx;
static z3::solver* g_solver;
static std::map<std::string, std::string> g_values;
static std::map<std::string, long> g_params;
static std::map<std::string, void (*)()>* g_harnesses;
static long g_fresh = 0, g_reproduced = 0, g_checks = 0, g_defaulted = 0;
static std::string g_want_label;
static unsigned g_fault_kinds = 0; static long g_fault_at = -1, g_fault_points = 0; static bool g_fault_fired = false;

z3::context& ctx() { if (!g_ctx) g_ctx = new z3::context(); return *g_ctx; }
bool replaying() { return true; }
static z3::solver& S() { if (!g_solver) { g_solver = new z3::solver(ctx()); z3::params p(ctx()); p.set("timeout", 60000u); g_solver->set(p); } return *g_solver; }

mpz_class input(const std::string& name, long lo, long hi) {
  if (lo == hi) return mpz_class(lo);
  auto it = g_values.find(name);
  if (it == g_values.end()) { ++g_defaulted; return mpz_class(lo > 0 ? lo : (hi < 0 ? hi : 0)); }
  mpz_class z(it->second, 10);
  if (z < lo || z > hi) { std::cerr << "conrt: recorded value of " << name << " outside its range\n"; exit(3); }
  return z;
}
int choose(const std::string& name, int n) {
  if (n <= 1) return 0;
  auto it = g_values.find("sel_" + name);
  if (it == g_values.end()) { ++g_defaulted; return 0; }
  int v = atoi(it->second.c_str());
  if (v < 0 || v >= n) { std::cerr << "conrt: selector " << name << " out of range\n"; exit(3); }
  return v;
}
long param(const std::string& name, long dflt) { auto it = g_params.find(name); return it == g_params.end() ? dflt : it->second; }
expr term(const mpz_class& z) { return ctx().int_val(z.get_str().c_str()); }
expr token_term(const std::string& text) { return ctx().int_val(text.c_str()); }
expr rterm(const mpz_class& z) { return ctx().real_val(z.get_str().c_str()); }
expr rterm(const mpq_class& q) { return ctx().real_val(q.get_num().get_str().c_str()) / ctx().real_val(q.get_den().get_str().c_str()); }
static std::string fname(const std::string& b) { std::ostringstream os; os << "_" << b << (g_fresh++); return os.str(); }
expr fresh_int(const std::string& b) { return ctx().int_const(fname(b).c_str()); }
expr fresh_real(const std::string& b) { return ctx().real_const(fname(b).c_str()); }
expr fresh_bool(const std::string& b) { return ctx().bool_const(fname(b).c_str()); }
void assume(const expr& f) {
  S().add(f);
  if (S().check() == z3::unsat) { std::cout << "REPLAY-INFEASIBLE assumption violated by the recorded inputs\n"; exit(4); }
}
void define(const expr& f) { S().add(f); }
bool decide(const expr& f) {
  expr g = f.simplify();
  if (g.is_true()) return true;
  if (g.is_false()) return false;
  z3::expr_vector v(ctx()); v.push_back(g);
  return S().check(v) == z3::sat;
}
bool possible(const expr& f) { z3::expr_vector v(ctx()); v.push_back(f); return S().check(v) != z3::unsat; }
static void reproduced(const std::string& label, const std::string& witness) {
  ++g_reproduced;
  std::cout << "REPRODUCED " << label << "\n";
  if (!witness.empty()) std::cout << "WITNESS " << witness << "\n";
}
bool check(const expr& f, const std::string& label) {
  ++g_checks;
  z3::expr_vector v(ctx()); v.push_back(!f);
  z3::check_result r = S().check(v);
  if (r == z3::unsat) return true;
  if (r == z3::unknown) { std::cout << "REPLAY-UNKNOWN " << label << "\n"; return false; }
  std::ostringstream os; z3::model m = S().get_model();
  for (unsigned i = 0; i < m.size(); ++i) { z3::func_decl d = m[i]; if (d.arity() == 0) os << d.name() << "=" << m.get_const_interp(d) << " "; }
  reproduced(label, os.str());
  return false;
}
bool check_all(const std::vector<std::pair<expr, std::string> >& obs) { bool all = true; for (auto& o : obs) all = check(o.first, o.second) && all; return all; }
void reach(const std::string&) {}
void fresh_obligations(bool) {}
void obligation_solver(int) {}
void require(bool ok, const std::string& label) { ++g_checks; if (!ok) reproduced(label, ""); }
void note(const std::string& k) { if (getenv("CONRT_NOTES")) std::cout << "NOTE " << k << "\n"; }
void fact(const std::string& k, const std::string& v) { std::cout << "FACT " << k << "=" << v << "\n"; }
void at(const char* callsite) { std::cout << "AT " << callsite << std::endl; }
void out_of_bound(const std::string& why) { std::cout << "REPLAY-OUT-OF-BOUND " << why << "\n"; exit(5); }
void poll_abort() {}
void faults_arm(unsigned kinds) { g_fault_kinds = kinds; }
void faults_disarm() { g_fault_kinds = 0; }
bool fault_fired() { return g_fault_fired; }

bool g_in_runtime = false;
static bool con_fault(unsigned kind) { if (!(g_fault_kinds & kind) || g_fault_fired) return false; ++g_fault_points; if (g_fault_points == g_fault_at) { g_fault_fired = true; return true; } return false; }
} // namespace symrt
#define RT_FAULT(kind) symrt::con_fault(kind)
#include "alloc_hooks.inc"
namespace symrt {
void faults_ledger(bool on) { ledger_arm(on); }
Harness_Reg::Harness_Reg(const char* name, void (*fn)()) {
  if (!g_harnesses) g_harnesses = new std::map<std::string, void (*)()>();
  (*g_harnesses)[name] = fn;
}

// replay file: lines "harness NAME", "param K V", "input NAME VALUE", "label TEXT"
int main_entry(int argc, char** argv) {
  if (argc < 2) { fprintf(stderr, "usage: replay <file>\n"); return 2; }
  std::ifstream in(argv[1]);
  if (!in) { fprintf(stderr, "cannot open %s\n", argv[1]); return 2; }
  std::string line, harness;
  while (std::getline(in, line)) {
    std::istringstream is(line); std::string k; is >> k;
    if (k == "harness") is >> harness;
    else if (k == "param") { std::string n; long v; is >> n >> v; g_params[n] = v; }
    else if (k == "input") { std::string n, v; is >> n >> v; g_values[n] = v; }
    else if (k == "label") { std::getline(is, g_want_label); }
    else if (k == "fault_at") { is >> g_fault_at; }
  }
  if (!g_harnesses || !g_harnesses->count(harness)) { fprintf(stderr, "no such harness '%s'\n", harness.c_str()); return 2; }
  try { (*g_harnesses)[harness](); }
  catch (std::exception& e) { reproduced(std::string("unexpected exception: ") + e.what(), ""); }
  std::cout << "FAULT-POINTS " << g_fault_points << " fired=" << g_fault_fired << "\n"; std::cout << "REPLAY-DONE checks=" << g_checks << " reproduced=" << g_reproduced << " defaulted_inputs=" << g_defaulted << "\n";
  return g_reproduced ? 1 : 0;
}
} // namespace symrt
int main(int argc, char** argv) { return symrt::main_entry(argc, argv); }
