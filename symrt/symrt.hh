// Harness-facing API of the Engine S runtime.  Two implementations exist:
//   symrt.cc  (symbolic: shim GMP, forking explorer on z3)
//   conrt.cc  (concrete replay: real GMP, inputs read from a replay file)
// A harness is written once against this header and compiled against both.
#ifndef SYMRT_HH
#define SYMRT_HH
#include <gmpxx.h>
#include <z3++.h>
#include <functional>
#include <string>
#include <vector>

namespace symrt {

z3::context& ctx();

// ---- symbolic data -------------------------------------------------------
// A fresh symbolic integer input in [lo,hi] (replay: the recorded value).
mpz_class input(const std::string& name, long lo, long hi);
// A symbolic selector in [0,n): concretised by forking (replay: recorded).
int choose(const std::string& name, int n);
inline bool flag(const std::string& name) { return choose(name, 2) != 0; }
// An input in [lo,hi] that is concretised immediately (one fork per value): keeps the terms built from it linear.
inline mpz_class cinput(const std::string& name, long lo, long hi) { return mpz_class(lo + choose(name, (int)(hi - lo + 1))); }
// Integer harness parameter (shape), set on the command line with --set k=v.
long param(const std::string& name, long dflt);

// ---- terms ---------------------------------------------------------------
z3::expr term(const mpz_class& z);                   // Int
z3::expr rterm(const mpz_class& z);                  // Real (to_real)
z3::expr rterm(const mpq_class& q);                  // Real num/den (den != 0 required)
// The integer term printed as `text' by operator<< (a numeral, or the token "@S<n>" of a symbolic value).
z3::expr token_term(const std::string& text);
z3::expr fresh_int(const std::string& base);
z3::expr fresh_real(const std::string& base);
z3::expr fresh_bool(const std::string& base);
inline z3::expr ival(long v) { return ctx().int_val((int64_t)v); }
inline z3::expr rval(long v) { return ctx().real_val((int64_t)v); }
inline z3::expr bval(bool b) { return ctx().bool_val(b); }

// ---- path condition --------------------------------------------------------
// Restrict the inputs (listed in evidence).  Must precede the code it constrains.
void assume(const z3::expr& f);
// Definitional constraint over fresh oracle variables only (a conservative extension of the path
// condition, e.g. k = floor(t)): added to every later query, never negated, keeps the current model.
void define(const z3::expr& f);
// Decide a symbolic Boolean: forks when both sides are feasible.
bool decide(const z3::expr& f);
// Is f satisfiable together with the path condition?  (no side effect)
bool possible(const z3::expr& f);

// ---- obligations -----------------------------------------------------------
// Obligation: f is valid under the path condition (for every value of the
// inputs on this path and every value of the fresh oracle variables in f).
// unsat(PC and not f) = discharged; sat = candidate violation (model recorded);
// unknown = inconclusive.  Returns true iff discharged.
bool check(const z3::expr& f, const std::string& label);
// Several obligations decided by one query on their conjunction (individually on failure).
bool check_all(const std::vector<std::pair<z3::expr, std::string> >& obs);
struct Batch { std::vector<std::pair<z3::expr, std::string> > obs; void add(const z3::expr& f, const std::string& l) { obs.push_back(std::make_pair(f, l)); } bool flush() { bool r = check_all(obs); obs.clear(); return r; } };
// Like check(), but the obligation is "exists": PC and f must be satisfiable
// for every input on the path -- only usable when f has no input-dependence
// beyond the path condition; used for reachability witnesses.
void reach(const std::string& label);
// Decide obligations in a fresh non-incremental solver (z3's incremental core can diverge on to_int/is_int terms).
void fresh_obligations(bool on);
// 0: incremental z3 then fresh z3 then cvc5; 1: fresh z3 first; 2: cvc5 (external process) first.
void obligation_solver(int mode);
// A concrete (non-solver) requirement evaluated by the harness itself.
void require(bool ok, const std::string& label);
// Free-form coverage note (e.g. a status word); histogrammed in the evidence.
void note(const std::string& key);
// Extra key=value facts attached to a violation recorded later on this path.
void fact(const std::string& key, const std::string& value);
// Names the call about to be made: a crash or timeout report carries it ("signal 11 in <callsite>").
void at(const char* callsite);
// True in the concrete replay runtime.
bool replaying();
// Give up this path as outside the bound (counted as incomplete, never as passed).
[[noreturn]] void out_of_bound(const std::string& why);
// Re-raise a pending path abort that a catch(...) in the code under test swallowed.
void poll_abort();

// ---- fault injection (C14/C20) ----------------------------------------------
// Arms the fault machinery: from now on each allocation / checkpoint asks the
// explorer whether to fail here (at most one failure per path).
void faults_arm(unsigned kinds);     // bit 0: operator new, bit 1: GMP alloc, bit 2: abandon checkpoints
void faults_disarm();
bool fault_fired();
long live_blocks();                  // ledger: live operator-new blocks + live GMP limb blocks allocated while the ledger is on
void faults_ledger(bool on);         // start / stop counting (and faulting) the allocations of the code under test

// ---- registration ------------------------------------------------------------
struct Harness_Reg { Harness_Reg(const char* name, void (*fn)()); };
#define SYMRT_HARNESS(NAME) \
  static void symrt_harness_##NAME(); \
  static ::symrt::Harness_Reg symrt_reg_##NAME(#NAME, symrt_harness_##NAME); \
  static void symrt_harness_##NAME()

int main_entry(int argc, char** argv);
} // namespace symrt
#endif
