// Engine S: symbolic models of the GMP entry points used by PPL.
// All-concrete operands go to the real __gmpz_* functions (bit-identical to
// the production build); otherwise an SMT term is built.
#include "symrt_internal.hh"
#include <cstdio>
#include <cstdlib>
#include <climits>
#include <iostream>
#include <sstream>

using z3::expr;
using namespace symrt;

namespace symrt {
static inline bool is_sym(mpz_srcptr z) { return z->_mp_alloc == SYMGMP_TAG; }
static inline Term& sym_of(mpz_srcptr z) { return *reinterpret_cast<Term*>(z->_mp_d); }

// ---------------------------------------------------------------- intervals
static i128 clampi(i128 v) { return v > IV_INF ? IV_INF : (v < -IV_INF ? -IV_INF : v); }
static bool inf(i128 v) { return v >= IV_INF || v <= -IV_INF; }
static i128 addi(i128 a, i128 b) { if (inf(a)) return a; if (inf(b)) return b; return clampi(a + b); }
static i128 muli(i128 a, i128 b) {
  if (a == 0 || b == 0) return 0;
  bool neg = (a < 0) != (b < 0);
  i128 aa = a < 0 ? -a : a, bb = b < 0 ? -b : b;
  const i128 L = ((i128)1) << 62;
  if (aa >= L || bb >= L) return neg ? -IV_INF : IV_INF;
  return clampi(neg ? -(aa * bb) : aa * bb);
}
static Iv iv_of_conc(mpz_srcptr z) {
  if (__gmpz_fits_slong_p(z)) { long v = __gmpz_get_si(z); return Iv{v, v}; }
  return z->_mp_size < 0 ? Iv{-IV_INF, -IV_INF} : Iv{IV_INF, IV_INF};   // huge constant: treat magnitude as unbounded
}
static Iv iv_add(Iv a, Iv b) { return Iv{addi(a.lo, b.lo), addi(a.hi, b.hi)}; }
static Iv iv_neg(Iv a) { return Iv{-a.hi, -a.lo}; }
static Iv iv_mul(Iv a, Iv b) {
  i128 c[4] = {muli(a.lo, b.lo), muli(a.lo, b.hi), muli(a.hi, b.lo), muli(a.hi, b.hi)};
  Iv r{c[0], c[0]};
  for (int i = 1; i < 4; ++i) { if (c[i] < r.lo) r.lo = c[i]; if (c[i] > r.hi) r.hi = c[i]; }
  return r;
}
static i128 iv_maxabs(Iv a) { i128 x = a.lo < 0 ? -a.lo : a.lo, y = a.hi < 0 ? -a.hi : a.hi; return x > y ? x : y; }
static Iv iv_abs(Iv a) { if (a.lo >= 0) return a; if (a.hi <= 0) return iv_neg(a); return Iv{0, iv_maxabs(a)}; }
static Iv iv_sym(i128 m) { return Iv{-m, m}; }
static Iv IV_ANY = {-IV_INF, IV_INF};

// ---------------------------------------------------------------- terms
static expr conc_term(mpz_srcptr z) {
  if (__gmpz_fits_slong_p(z)) return ctx().int_val((int64_t)__gmpz_get_si(z));
  char* s = __gmpz_get_str(0, 10, z); expr e = ctx().int_val(s);
  void (*freefunc)(void*, size_t); __gmp_get_memory_functions(0, 0, &freefunc); freefunc(s, strlen(s) + 1);
  return e;
}
static expr T(mpz_srcptr z) { return is_sym(z) ? sym_of(z).e : conc_term(z); }
static Iv I(mpz_srcptr z) { return is_sym(z) ? sym_of(z).iv : iv_of_conc(z); }
static void make_conc(mpz_ptr r) { if (is_sym(r)) __gmpz_init(r); }
static void set_sym(mpz_ptr r, const expr& e0, Iv iv) {
  bool old = g_in_runtime; g_in_runtime = true;
  expr e = e0.simplify();
  if (e.is_numeral()) {
    std::string s = e.get_decimal_string(0);
    make_conc(r);
    __gmpz_set_str(r, s.c_str(), 10);
    g_in_runtime = old;
    return;
  }
  if (iv.lo == iv.hi && !inf(iv.lo)) { /* singleton interval but non-numeral term: keep the term */ }
  if (!is_sym(r)) __gmpz_clear(r);
  r->_mp_alloc = SYMGMP_TAG; r->_mp_size = 0; r->_mp_d = reinterpret_cast<mp_limb_t*>(alloc_term(e, iv));
  g_in_runtime = old;
}
static expr fresh(const char* base) { return fresh_named(base, false); }
static expr eabs(const expr& x) { return z3::ite(x >= 0, x, -x); }
static expr pow2(mp_bitcnt_t n) { mpz_t p; __gmpz_init_set_ui(p, 1); __gmpz_mul_2exp(p, p, n); expr P = conc_term(p); __gmpz_clear(p); return P; }
static i128 pow2i(mp_bitcnt_t n) { return n >= 100 ? IV_INF : ((i128)1) << n; }

void set_input_term(mpz_class& z, const expr& v, long lo, long hi) { set_sym(z.get_mpz_t(), v, Iv{lo, hi}); }

expr term(const mpz_class& z) { return T(z.get_mpz_t()); }
expr token_term(const std::string& text) {
  if (text.size() > 2 && text[0] == '@' && text[1] == 'S') { Term* t = term_of_token(atol(text.c_str() + 2)); if (t) return t->e; }
  return ctx().int_val(text.c_str());
}
expr rterm(const mpz_class& z) { return z3::to_real(T(z.get_mpz_t())); }
expr rterm(const mpq_class& q) { return z3::to_real(T(q.get_num_mpz_t())) / z3::to_real(T(q.get_den_mpz_t())); }

// Decide the sign of a term using the interval first, the solver otherwise.
static int sign_of(mpz_srcptr a) {
  if (!is_sym(a)) return a->_mp_size < 0 ? -1 : a->_mp_size > 0;
  Iv iv = sym_of(a).iv;
  if (iv.lo > 0) return 1;
  if (iv.hi < 0) return -1;
  expr x = sym_of(a).e;
  if (branch(x == 0)) return 0;
  if (iv.lo >= 0) return 1;
  if (iv.hi <= 0) return -1;
  return branch(x < 0) ? -1 : 1;
}

// Concretise by value forking.
static long concretize(mpz_srcptr z) {
  count_concretization();
  expr x = sym_of(z).e;
  return value_decision([&](long k) { return x == ctx().int_val((int64_t)k); },
                        [&](z3::model& m, long& out) { expr e = m.eval(x, true); int64_t v; if (!e.is_numeral_i64(v)) return false; out = v; return true; });
}
static void concretize_into(mpz_ptr c, mpz_srcptr z) { if (is_sym(z)) __gmpz_init_set_si(c, concretize(z)); else __gmpz_init_set(c, z); }

static bool is_prime(long p) { if (p < 2) return false; for (long d = 2; d * d <= p; ++d) if (p % d == 0) return false; return true; }
static expr divides(long v, const expr& x) { return v == 1 ? ctx().bool_val(true) : z3::mod(x, ctx().int_val((int64_t)v)) == 0; }
static long gcdl(long a, long b) { a = a < 0 ? -a : a; b = b < 0 ? -b : b; while (b) { long t = a % b; a = b; b = t; } return a; }

// gcd of two terms, both known non-zero: fork on its value.
static long gcd_fork(const expr& x, const expr& y, i128 M) {
  if (inf(M) || M > 4096) {
    // the interval annotation is too loose: ask the solver for a power-of-16 bound on min(|x|,|y|)
    // (verdicts, not models: the refinement is the same on every replay of this prefix)
    bool found = false;
    for (long K = 16; K <= 65536 && !found; K *= 16) {
      expr big = (x > ctx().int_val((int64_t)K) || x < ctx().int_val((int64_t)-K)) && (y > ctx().int_val((int64_t)K) || y < ctx().int_val((int64_t)-K));
      if (!possible(big)) { M = K; found = true; }
    }
    if (!found) out_of_bound("gcd of terms with unbounded magnitude");
  }
  long Ml = (long)M;
  return value_decision(
    [&](long v) {
      expr c = divides(v, x) && divides(v, y);
      for (long pr = 2; pr * v <= Ml; ++pr) if (is_prime(pr)) c = c && !(divides(pr * v, x) && divides(pr * v, y));
      return c; },
    [&](z3::model& m, long& out) {
      expr ex = m.eval(x, true), ey = m.eval(y, true); int64_t a, b;
      if (!ex.is_numeral_i64(a) || !ey.is_numeral_i64(b)) return false;
      out = gcdl(a, b); return out > 0; });
}
} // namespace symrt

#define ANY2(a,b) (is_sym(a) || is_sym(b))
extern "C" {
// ---------------------------------------------------------------- mpz: init / set
void symgmp_z_init(mpz_ptr z) { __gmpz_init(z); }
void symgmp_z_init2(mpz_ptr z, mp_bitcnt_t n) { __gmpz_init2(z, n); }
void symgmp_z_clear(mpz_ptr z) { if (!is_sym(z)) __gmpz_clear(z); }
void symgmp_z_set(mpz_ptr r, mpz_srcptr a) {
  if (r == a) return;
  if (is_sym(a)) { if (!is_sym(r)) __gmpz_clear(r); *r = *a; }
  else { make_conc(r); __gmpz_set(r, a); }
}
void symgmp_z_init_set(mpz_ptr r, mpz_srcptr a) { if (is_sym(a)) *r = *a; else __gmpz_init_set(r, a); }
void symgmp_z_set_si(mpz_ptr r, long v) { make_conc(r); __gmpz_set_si(r, v); }
void symgmp_z_set_ui(mpz_ptr r, unsigned long v) { make_conc(r); __gmpz_set_ui(r, v); }
void symgmp_z_set_d(mpz_ptr r, double v) { make_conc(r); __gmpz_set_d(r, v); }
void symgmp_z_init_set_si(mpz_ptr r, long v) { __gmpz_init_set_si(r, v); }
void symgmp_z_init_set_ui(mpz_ptr r, unsigned long v) { __gmpz_init_set_ui(r, v); }
void symgmp_z_init_set_d(mpz_ptr r, double v) { __gmpz_init_set_d(r, v); }
// Text: "@S<n>" restores the n-th term of the current path (tokens written by operator<<).
int symgmp_z_set_str(mpz_ptr r, const char* s, int b) {
  if (s[0] == '@' && s[1] == 'S') { Term* t = term_of_token(atol(s + 2)); if (!t) return -1; if (!is_sym(r)) __gmpz_clear(r); r->_mp_alloc = SYMGMP_TAG; r->_mp_size = 0; r->_mp_d = reinterpret_cast<mp_limb_t*>(t); return 0; }
  make_conc(r); return __gmpz_set_str(r, s, b);
}
int symgmp_z_init_set_str(mpz_ptr r, const char* s, int b) { __gmpz_init(r); return symgmp_z_set_str(r, s, b); }
void symgmp_z_swap(mpz_ptr a, mpz_ptr b) { __mpz_struct t = *a; *a = *b; *b = t; }

// ---------------------------------------------------------------- mpz: ring
void symgmp_z_add(mpz_ptr r, mpz_srcptr a, mpz_srcptr b) {
  if (!ANY2(a, b)) { make_conc(r); __gmpz_add(r, a, b); return; }
  set_sym(r, T(a) + T(b), iv_add(I(a), I(b)));
}
void symgmp_z_sub(mpz_ptr r, mpz_srcptr a, mpz_srcptr b) {
  if (!ANY2(a, b)) { make_conc(r); __gmpz_sub(r, a, b); return; }
  set_sym(r, T(a) - T(b), iv_add(I(a), iv_neg(I(b))));
}
void symgmp_z_mul(mpz_ptr r, mpz_srcptr a, mpz_srcptr b) {
  if (!ANY2(a, b)) { make_conc(r); __gmpz_mul(r, a, b); return; }
  if (!is_sym(a) && a->_mp_size == 0) { make_conc(r); __gmpz_set_ui(r, 0); return; }
  if (!is_sym(b) && b->_mp_size == 0) { make_conc(r); __gmpz_set_ui(r, 0); return; }
  set_sym(r, T(a) * T(b), iv_mul(I(a), I(b)));
}
void symgmp_z_add_ui(mpz_ptr r, mpz_srcptr a, unsigned long v) { mpz_t t; __gmpz_init_set_ui(t, v); symgmp_z_add(r, a, t); __gmpz_clear(t); }
void symgmp_z_sub_ui(mpz_ptr r, mpz_srcptr a, unsigned long v) { mpz_t t; __gmpz_init_set_ui(t, v); symgmp_z_sub(r, a, t); __gmpz_clear(t); }
void symgmp_z_mul_si(mpz_ptr r, mpz_srcptr a, long v) { mpz_t t; __gmpz_init_set_si(t, v); symgmp_z_mul(r, a, t); __gmpz_clear(t); }
void symgmp_z_mul_ui(mpz_ptr r, mpz_srcptr a, unsigned long v) { mpz_t t; __gmpz_init_set_ui(t, v); symgmp_z_mul(r, a, t); __gmpz_clear(t); }
void symgmp_z_addmul(mpz_ptr r, mpz_srcptr a, mpz_srcptr b) {
  if (!ANY2(a, b) && !is_sym(r)) { __gmpz_addmul(r, a, b); return; }
  set_sym(r, T(r) + T(a) * T(b), iv_add(I(r), iv_mul(I(a), I(b))));
}
void symgmp_z_submul(mpz_ptr r, mpz_srcptr a, mpz_srcptr b) {
  if (!ANY2(a, b) && !is_sym(r)) { __gmpz_submul(r, a, b); return; }
  set_sym(r, T(r) - T(a) * T(b), iv_add(I(r), iv_neg(iv_mul(I(a), I(b)))));
}
void symgmp_z_neg(mpz_ptr r, mpz_srcptr a) {
  if (!is_sym(a)) { make_conc(r); __gmpz_neg(r, a); return; }
  set_sym(r, -T(a), iv_neg(I(a)));
}
void symgmp_z_abs(mpz_ptr r, mpz_srcptr a) {
  if (!is_sym(a)) { make_conc(r); __gmpz_abs(r, a); return; }
  Iv iv = I(a);
  if (iv.lo >= 0) { symgmp_z_set(r, a); return; }
  if (iv.hi <= 0) { set_sym(r, -T(a), iv_neg(iv)); return; }
  set_sym(r, eabs(T(a)), iv_abs(iv));
}
void symgmp_z_ui_pow_ui(mpz_ptr r, unsigned long b, unsigned long e) { make_conc(r); __gmpz_ui_pow_ui(r, b, e); }
void symgmp_z_pow_ui(mpz_ptr r, mpz_srcptr a, unsigned long e) {
  if (!is_sym(a)) { make_conc(r); __gmpz_pow_ui(r, a, e); return; }
  if (e > 8) out_of_bound("pow_ui with large exponent on a symbolic base");
  expr x = T(a), p = ctx().int_val(1); Iv iv{1, 1};
  for (unsigned long i = 0; i < e; ++i) { p = p * x; iv = iv_mul(iv, I(a)); }
  set_sym(r, p, iv);
}

// ---------------------------------------------------------------- mpz: gcd family
void symgmp_z_gcd(mpz_ptr r, mpz_srcptr a, mpz_srcptr b) {
  if (!ANY2(a, b)) { make_conc(r); __gmpz_gcd(r, a, b); return; }
  int sa = sign_of(a);
  if (sa == 0) { symgmp_z_abs(r, b); return; }
  int sb = sign_of(b);
  if (sb == 0) { symgmp_z_abs(r, a); return; }
  i128 ma = iv_maxabs(I(a)), mb = iv_maxabs(I(b));
  long g = gcd_fork(T(a), T(b), ma < mb ? ma : mb);
  make_conc(r); __gmpz_set_si(r, g);
}
void symgmp_z_lcm(mpz_ptr r, mpz_srcptr a, mpz_srcptr b) {
  if (!ANY2(a, b)) { make_conc(r); __gmpz_lcm(r, a, b); return; }
  int sa = sign_of(a); if (sa == 0) { make_conc(r); __gmpz_set_ui(r, 0); return; }
  int sb = sign_of(b); if (sb == 0) { make_conc(r); __gmpz_set_ui(r, 0); return; }
  i128 ma = iv_maxabs(I(a)), mb = iv_maxabs(I(b));
  long g = gcd_fork(T(a), T(b), ma < mb ? ma : mb);
  expr p = T(a) * T(b); if (sa * sb < 0) p = -p;
  Iv iv = iv_abs(iv_mul(I(a), I(b)));
  set_sym(r, g == 1 ? p : p / ctx().int_val((int64_t)g), iv);
}
void symgmp_z_gcdext(mpz_ptr g, mpz_ptr s, mpz_ptr t, mpz_srcptr a, mpz_srcptr b) {
  if (!ANY2(a, b)) { make_conc(g); if (s) make_conc(s); if (t) make_conc(t); __gmpz_gcdext(g, s, t, a, b); return; }
  // GMP returns one specific Bezout pair: concretise both operands so that the replay sees the same one.
  mpz_t ca, cb; concretize_into(ca, a); concretize_into(cb, b);
  make_conc(g); if (s) make_conc(s); if (t) make_conc(t);
  __gmpz_gcdext(g, s, t, ca, cb); __gmpz_clear(ca); __gmpz_clear(cb);
}

// ---------------------------------------------------------------- mpz: division
// mode 0 trunc, 1 floor, 2 ceil
static void divmod(mpz_ptr q, mpz_ptr r, mpz_srcptr a, mpz_srcptr b, int mode) {
  expr x = T(a), y = T(b);
  Iv ia = I(a), ib = I(b);
  i128 mq = iv_maxabs(ia), mr = iv_maxabs(ib);
  if (!is_sym(b)) {
    if (b->_mp_size == 0) { fprintf(stderr, "symrt: division by zero\n"); abort(); }
    bool negd = b->_mp_size < 0;
    expr d = negd ? -y : y, n = negd ? -x : x;     // n / d with d > 0 has the same quotient
    expr fq = n / d;                               // z3 div: floor for positive divisor
    expr cq = -((-n) / d);
    expr qq = mode == 1 ? fq : mode == 2 ? cq : z3::ite(n >= 0, fq, cq);
    // Remainder is taken from the identity (keeps sign conventions of GMP).
    if (q && r && q != r) { set_sym(q, qq, iv_sym(mq)); set_sym(r, x - qq * y, iv_sym(mr)); }
    else if (q) set_sym(q, qq, iv_sym(mq));
    else if (r) set_sym(r, x - qq * y, iv_sym(mr));
    return;
  }
  // symbolic divisor: must be non-zero
  if (sign_of(b) == 0) { fprintf(stderr, "symrt: division by (symbolic) zero\n"); abort(); }
  expr qq = fresh("q"), rr = fresh("r");
  expr zero = ctx().int_val(0);
  expr c = (x == qq * y + rr) && (eabs(rr) < eabs(y));
  if (mode == 0) c = c && z3::implies(x >= zero, rr >= zero) && z3::implies(x <= zero, rr <= zero);
  if (mode == 1) c = c && z3::implies(y > zero, rr >= zero) && z3::implies(y < zero, rr <= zero);
  if (mode == 2) c = c && z3::implies(y > zero, rr <= zero) && z3::implies(y < zero, rr >= zero);
  add_pc(c, false);
  if (q) set_sym(q, qq, iv_sym(mq));
  if (r && r != q) set_sym(r, rr, iv_sym(mr));
}
#define DIVFN(name, real, Q, R, mode) \
void name(mpz_ptr o, mpz_srcptr a, mpz_srcptr b) { if (!ANY2(a, b)) { make_conc(o); real(o, a, b); return; } divmod(Q, R, a, b, mode); }
DIVFN(symgmp_z_tdiv_q, __gmpz_tdiv_q, o, 0, 0)
DIVFN(symgmp_z_tdiv_r, __gmpz_tdiv_r, 0, o, 0)
DIVFN(symgmp_z_fdiv_q, __gmpz_fdiv_q, o, 0, 1)
DIVFN(symgmp_z_fdiv_r, __gmpz_fdiv_r, 0, o, 1)
DIVFN(symgmp_z_cdiv_q, __gmpz_cdiv_q, o, 0, 2)
DIVFN(symgmp_z_cdiv_r, __gmpz_cdiv_r, 0, o, 2)
#define DIVQR(name, real, mode) \
void name(mpz_ptr q, mpz_ptr r, mpz_srcptr a, mpz_srcptr b) { if (!ANY2(a, b)) { make_conc(q); make_conc(r); real(q, r, a, b); return; } \
  /* operands may alias outputs: copy terms first */ __mpz_struct ca = *a, cb = *b; divmod(q, r, &ca, &cb, mode); }
DIVQR(symgmp_z_tdiv_qr, __gmpz_tdiv_qr, 0)
DIVQR(symgmp_z_fdiv_qr, __gmpz_fdiv_qr, 1)
DIVQR(symgmp_z_cdiv_qr, __gmpz_cdiv_qr, 2)
void symgmp_z_divexact(mpz_ptr r, mpz_srcptr a, mpz_srcptr b) {
  if (!ANY2(a, b)) { make_conc(r); __gmpz_divexact(r, a, b); return; }
  if (!is_sym(b)) {
    if (__gmpz_cmp_ui(b, 1) == 0) { symgmp_z_set(r, a); return; }
    if (__gmpz_cmp_si(b, -1) == 0) { symgmp_z_neg(r, a); return; }
    divmod(r, 0, a, b, 1); return;
  }
  if (sign_of(b) == 0) { fprintf(stderr, "symrt: divexact by (symbolic) zero\n"); abort(); }
  expr x = T(a), y = T(b);
  expr q = fresh("dq");
  i128 m = iv_maxabs(I(a));
  add_pc(x == q * y, false);
  set_sym(r, q, iv_sym(m));
}
int symgmp_z_divisible_p(mpz_srcptr a, mpz_srcptr b) {
  if (!ANY2(a, b)) return __gmpz_divisible_p(a, b);
  if (!is_sym(b)) {
    if (b->_mp_size == 0) return sign_of(a) == 0;
    mpz_t ab; __gmpz_init(ab); __gmpz_abs(ab, b); expr d = conc_term(ab); __gmpz_clear(ab);
    return branch(z3::mod(T(a), d) == 0);
  }
  if (sign_of(b) == 0) return sign_of(a) == 0;
  expr k = fresh("dk");
  // exists k: a = k*b  -- decided through a fresh quotient/remainder pair
  expr x = T(a), y = T(b); expr rr = fresh("dr");
  add_pc(x == k * y + rr && rr >= 0 && rr < eabs(y), false);
  return branch(rr == 0);
}
#define SHIFT(name, real, EXPR, IV) \
void name(mpz_ptr r, mpz_srcptr a, mp_bitcnt_t n) { \
  if (!is_sym(a)) { make_conc(r); real(r, a, n); return; } \
  expr x = T(a); expr P = pow2(n); Iv ia = I(a); i128 Pi = pow2i(n); (void)ia; (void)Pi; \
  set_sym(r, EXPR, IV); }
SHIFT(symgmp_z_mul_2exp, __gmpz_mul_2exp, x * P, iv_mul(ia, Iv{Pi, Pi}))
SHIFT(symgmp_z_fdiv_q_2exp, __gmpz_fdiv_q_2exp, x / P, iv_sym(iv_maxabs(ia)))
SHIFT(symgmp_z_cdiv_q_2exp, __gmpz_cdiv_q_2exp, -((-x) / P), iv_sym(iv_maxabs(ia)))
SHIFT(symgmp_z_tdiv_q_2exp, __gmpz_tdiv_q_2exp, z3::ite(x >= 0, x / P, -((-x) / P)), iv_sym(iv_maxabs(ia)))
SHIFT(symgmp_z_fdiv_r_2exp, __gmpz_fdiv_r_2exp, z3::mod(x, P), (Iv{0, Pi}))
SHIFT(symgmp_z_cdiv_r_2exp, __gmpz_cdiv_r_2exp, -z3::mod(-x, P), (Iv{-Pi, 0}))
SHIFT(symgmp_z_tdiv_r_2exp, __gmpz_tdiv_r_2exp, z3::ite(x >= 0, z3::mod(x, P), -z3::mod(-x, P)), iv_sym(Pi))
int symgmp_z_divisible_2exp_p(mpz_srcptr a, mp_bitcnt_t n) {
  if (!is_sym(a)) return __gmpz_divisible_2exp_p(a, n);
  return branch(z3::mod(T(a), pow2(n)) == 0);
}
void symgmp_z_sqrtrem(mpz_ptr r, mpz_ptr s, mpz_srcptr a) {
  if (!is_sym(a)) { make_conc(r); if (s) make_conc(s); if (s) __gmpz_sqrtrem(r, s, a); else __gmpz_sqrt(r, a); return; }
  expr x = T(a); expr q = fresh("sq");
  i128 m = iv_maxabs(I(a));
  add_pc(q >= 0 && q * q <= x && x < (q + 1) * (q + 1), false);
  __mpz_struct ca = *a;
  set_sym(r, q, Iv{0, m});
  if (s) set_sym(s, T(&ca) - q * q, Iv{0, m});
}
void symgmp_z_sqrt(mpz_ptr r, mpz_srcptr a) { symgmp_z_sqrtrem(r, 0, a); }

// ---------------------------------------------------------------- mpz: comparisons
int symgmp_z_rel(mpz_srcptr a, mpz_srcptr b, int op) {
  if (!ANY2(a, b)) { int c = __gmpz_cmp(a, b); return op == 0 ? c == 0 : op == 1 ? c < 0 : c <= 0; }
  Iv ia = I(a), ib = I(b);
  if (ia.hi < ib.lo) return op != 0;
  if (ia.lo > ib.hi) return 0;
  expr x = T(a), y = T(b);
  return branch(op == 0 ? x == y : op == 1 ? x < y : x <= y);
}
int symgmp_z_cmp(mpz_srcptr a, mpz_srcptr b) {
  if (!ANY2(a, b)) return __gmpz_cmp(a, b);
  Iv ia = I(a), ib = I(b);
  if (ia.hi < ib.lo) return -1;
  if (ia.lo > ib.hi) return 1;
  expr x = T(a), y = T(b);
  if (branch(x == y)) return 0;
  if (ia.hi <= ib.lo) return -1;
  if (ia.lo >= ib.hi) return 1;
  return branch(x < y) ? -1 : 1;
}
int symgmp_z_cmpabs(mpz_srcptr a, mpz_srcptr b) {
  if (!ANY2(a, b)) return __gmpz_cmpabs(a, b);
  expr x = eabs(T(a)), y = eabs(T(b));
  if (branch(x == y)) return 0;
  return branch(x < y) ? -1 : 1;
}
int symgmp_z_sgn(mpz_srcptr a) { return sign_of(a); }
int symgmp_z_cmp_si(mpz_srcptr a, long v) {
  if (!is_sym(a)) return __gmpz_cmp_si(a, v);
  mpz_t t; __gmpz_init_set_si(t, v); int r = symgmp_z_cmp(a, t); __gmpz_clear(t); return r;
}
int symgmp_z_cmp_ui(mpz_srcptr a, unsigned long v) {
  if (!is_sym(a)) return __gmpz_cmp_ui(a, v);
  mpz_t t; __gmpz_init_set_ui(t, v); int r = symgmp_z_cmp(a, t); __gmpz_clear(t); return r;
}
int symgmp_z_odd_p(mpz_srcptr a) {
  if (!is_sym(a)) return a->_mp_size != 0 && (a->_mp_d[0] & 1);
  return branch(z3::mod(T(a), ctx().int_val(2)) == 1);
}
int symgmp_z_even_p(mpz_srcptr a) { return !symgmp_z_odd_p(a); }

// ---------------------------------------------------------------- mpz: conversions (concretise)
long symgmp_z_get_si(mpz_srcptr a) { if (!is_sym(a)) return __gmpz_get_si(a); return concretize(a); }
unsigned long symgmp_z_get_ui(mpz_srcptr a) { if (!is_sym(a)) return __gmpz_get_ui(a); long v = concretize(a); return v < 0 ? -(unsigned long)v : (unsigned long)v; }
double symgmp_z_get_d(mpz_srcptr a) { if (!is_sym(a)) return __gmpz_get_d(a); return (double)concretize(a); }
char* symgmp_z_get_str(char* s, int base, mpz_srcptr a) {
  if (!is_sym(a)) return __gmpz_get_str(s, base, a);
  mpz_t t; __gmpz_init_set_si(t, concretize(a)); char* r = __gmpz_get_str(s, base, t); __gmpz_clear(t); return r;
}
#define FITS(name, real, LO, HI) int name(mpz_srcptr a) { if (!is_sym(a)) return real(a); Iv iv = I(a); \
  if (iv.lo >= (i128)(LO) && iv.hi <= (i128)(HI)) return 1; if (iv.hi < (i128)(LO) || iv.lo > (i128)(HI)) return 0; \
  expr x = T(a); return branch(x >= ctx().int_val((int64_t)(LO)) && x <= ctx().int_val((uint64_t)(HI))); }
FITS(symgmp_z_fits_slong_p, __gmpz_fits_slong_p, LONG_MIN, LONG_MAX)
FITS(symgmp_z_fits_ulong_p, __gmpz_fits_ulong_p, 0, ULONG_MAX)
FITS(symgmp_z_fits_sint_p, __gmpz_fits_sint_p, INT_MIN, INT_MAX)
FITS(symgmp_z_fits_uint_p, __gmpz_fits_uint_p, 0, UINT_MAX)
FITS(symgmp_z_fits_sshort_p, __gmpz_fits_sshort_p, SHRT_MIN, SHRT_MAX)
FITS(symgmp_z_fits_ushort_p, __gmpz_fits_ushort_p, 0, USHRT_MAX)
size_t symgmp_z_sizeinbase(mpz_srcptr a, int b) { if (!is_sym(a)) return __gmpz_sizeinbase(a, b); mpz_t t; __gmpz_init_set_si(t, concretize(a)); size_t r = __gmpz_sizeinbase(t, b); __gmpz_clear(t); return r; }
size_t symgmp_z_size(mpz_srcptr a) { if (!is_sym(a)) return __gmpz_size(a); mpz_t t; __gmpz_init_set_si(t, concretize(a)); size_t r = __gmpz_size(t); __gmpz_clear(t); return r; }
int symgmp_z_tstbit(mpz_srcptr a, mp_bitcnt_t n) { if (!is_sym(a)) return __gmpz_tstbit(a, n); mpz_t t; __gmpz_init_set_si(t, concretize(a)); int r = __gmpz_tstbit(t, n); __gmpz_clear(t); return r; }
void* symgmp_z_export(void* r, size_t* c, int o, size_t s, int e, size_t n, mpz_srcptr a) {
  if (!is_sym(a)) return __gmpz_export(r, c, o, s, e, n, a);
  mpz_t t; __gmpz_init_set_si(t, concretize(a)); void* p = __gmpz_export(r, c, o, s, e, n, t); __gmpz_clear(t); return p;
}
void symgmp_z_import(mpz_ptr r, size_t c, int o, size_t s, int e, size_t n, const void* p) { make_conc(r); __gmpz_import(r, c, o, s, e, n, p); }

// ---------------------------------------------------------------- bit-level (Bit_Row) functions
static void need_conc(mpz_srcptr a, const char* fn) { if (is_sym(a)) { fprintf(stderr, "symrt: %s on a symbolic operand is not modelled\n", fn); abort(); } }
void symgmp_z_com(mpz_ptr r, mpz_srcptr a) { need_conc(a, "mpz_com"); make_conc(r); __gmpz_com(r, a); }
void symgmp_z_and(mpz_ptr r, mpz_srcptr a, mpz_srcptr b) { need_conc(a, "mpz_and"); need_conc(b, "mpz_and"); make_conc(r); __gmpz_and(r, a, b); }
void symgmp_z_ior(mpz_ptr r, mpz_srcptr a, mpz_srcptr b) { need_conc(a, "mpz_ior"); need_conc(b, "mpz_ior"); make_conc(r); __gmpz_ior(r, a, b); }
void symgmp_z_xor(mpz_ptr r, mpz_srcptr a, mpz_srcptr b) { need_conc(a, "mpz_xor"); need_conc(b, "mpz_xor"); make_conc(r); __gmpz_xor(r, a, b); }
void symgmp_z_setbit(mpz_ptr r, mp_bitcnt_t k) { need_conc(r, "mpz_setbit"); __gmpz_setbit(r, k); }
void symgmp_z_clrbit(mpz_ptr r, mp_bitcnt_t k) { need_conc(r, "mpz_clrbit"); __gmpz_clrbit(r, k); }
void symgmp_z_combit(mpz_ptr r, mp_bitcnt_t k) { need_conc(r, "mpz_combit"); __gmpz_combit(r, k); }
void symgmp_z_realloc2(mpz_ptr r, mp_bitcnt_t k) { make_conc(r); __gmpz_realloc2(r, k); }

// ---------------------------------------------------------------- mpq
#define QN(q) (&(q)->_mp_num)
#define QD(q) (&(q)->_mp_den)
static bool q_conc(mpq_srcptr q) { return !is_sym(QN(q)) && !is_sym(QD(q)); }
void symgmp_q_init(mpq_ptr q) { __gmpq_init(q); }
void symgmp_q_clear(mpq_ptr q) { symgmp_z_clear(QN(q)); symgmp_z_clear(QD(q)); }
void symgmp_q_set(mpq_ptr r, mpq_srcptr a) { symgmp_z_set(QN(r), QN(a)); symgmp_z_set(QD(r), QD(a)); }
void symgmp_q_set_z(mpq_ptr r, mpz_srcptr a) { symgmp_z_set(QN(r), a); symgmp_z_set_ui(QD(r), 1); }
void symgmp_q_set_si(mpq_ptr r, long n, unsigned long d) { symgmp_z_set_si(QN(r), n); symgmp_z_set_ui(QD(r), d); }
void symgmp_q_set_ui(mpq_ptr r, unsigned long n, unsigned long d) { symgmp_z_set_ui(QN(r), n); symgmp_z_set_ui(QD(r), d); }
void symgmp_q_set_d(mpq_ptr r, double d) { make_conc(QN(r)); make_conc(QD(r)); __gmpq_set_d(r, d); }
int symgmp_q_set_str(mpq_ptr r, const char* s, int b) {
  const char* slash = strchr(s, '/');
  if (s[0] == '@' || (slash && slash[1] == '@')) {
    std::string n(s, slash ? (size_t)(slash - s) : strlen(s));
    if (symgmp_z_set_str(QN(r), n.c_str(), b)) return -1;
    if (slash) return symgmp_z_set_str(QD(r), slash + 1, b);
    symgmp_z_set_ui(QD(r), 1); return 0;
  }
  make_conc(QN(r)); make_conc(QD(r)); return __gmpq_set_str(r, s, b);
}
void symgmp_q_swap(mpq_ptr a, mpq_ptr b) { __mpq_struct t = *a; *a = *b; *b = t; }
void symgmp_q_get_num(mpz_ptr r, mpq_srcptr a) { symgmp_z_set(r, QN(a)); }
void symgmp_q_get_den(mpz_ptr r, mpq_srcptr a) { symgmp_z_set(r, QD(a)); }
void symgmp_q_set_num(mpq_ptr r, mpz_srcptr a) { symgmp_z_set(QN(r), a); }
void symgmp_q_set_den(mpq_ptr r, mpz_srcptr a) { symgmp_z_set(QD(r), a); }
void symgmp_q_canonicalize(mpq_ptr q) {
  if (q_conc(q)) { __gmpq_canonicalize(q); return; }
  int sd = sign_of(QD(q));
  if (sd == 0) { fprintf(stderr, "symrt: canonicalize with zero denominator\n"); abort(); }
  if (sd < 0) { symgmp_z_neg(QN(q), QN(q)); symgmp_z_neg(QD(q), QD(q)); }
  if (!is_sym(QD(q)) && __gmpz_cmp_ui(QD(q), 1) == 0) return;
  int sn = sign_of(QN(q));
  if (sn == 0) { symgmp_z_set_ui(QD(q), 1); return; }
  mpz_t g; __gmpz_init(g);
  symgmp_z_gcd(g, QN(q), QD(q));
  if (__gmpz_cmp_ui(g, 1) != 0) { symgmp_z_divexact(QN(q), QN(q), g); symgmp_z_divexact(QD(q), QD(q), g); }
  __gmpz_clear(g);
  // the denominator stays positive: record it in the interval annotation
  if (is_sym(QD(q)) && sym_of(QD(q)).iv.lo < 1) sym_of(QD(q)).iv.lo = 1;
}
static void q_result(mpq_ptr r, mpz_ptr n, mpz_ptr d) {
  symgmp_z_swap(QN(r), n); symgmp_z_swap(QD(r), d);
  symgmp_z_clear(n); symgmp_z_clear(d);
  symgmp_q_canonicalize(r);
}
static void q_addsub(mpq_ptr r, mpq_srcptr a, mpq_srcptr b, bool sub) {
  mpz_t n, d, t; __gmpz_init(n); __gmpz_init(d); __gmpz_init(t);
  symgmp_z_mul(n, QN(a), QD(b)); symgmp_z_mul(t, QN(b), QD(a));
  if (sub) symgmp_z_sub(n, n, t); else symgmp_z_add(n, n, t);
  symgmp_z_mul(d, QD(a), QD(b));
  symgmp_z_clear(t);
  q_result(r, n, d);
}
void symgmp_q_add(mpq_ptr r, mpq_srcptr a, mpq_srcptr b) { if (q_conc(a) && q_conc(b)) { make_conc(QN(r)); make_conc(QD(r)); __gmpq_add(r, a, b); return; } q_addsub(r, a, b, false); }
void symgmp_q_sub(mpq_ptr r, mpq_srcptr a, mpq_srcptr b) { if (q_conc(a) && q_conc(b)) { make_conc(QN(r)); make_conc(QD(r)); __gmpq_sub(r, a, b); return; } q_addsub(r, a, b, true); }
void symgmp_q_mul(mpq_ptr r, mpq_srcptr a, mpq_srcptr b) {
  if (q_conc(a) && q_conc(b)) { make_conc(QN(r)); make_conc(QD(r)); __gmpq_mul(r, a, b); return; }
  mpz_t n, d; __gmpz_init(n); __gmpz_init(d);
  symgmp_z_mul(n, QN(a), QN(b)); symgmp_z_mul(d, QD(a), QD(b));
  q_result(r, n, d);
}
void symgmp_q_div(mpq_ptr r, mpq_srcptr a, mpq_srcptr b) {
  if (q_conc(a) && q_conc(b)) { make_conc(QN(r)); make_conc(QD(r)); __gmpq_div(r, a, b); return; }
  mpz_t n, d; __gmpz_init(n); __gmpz_init(d);
  symgmp_z_mul(n, QN(a), QD(b)); symgmp_z_mul(d, QD(a), QN(b));
  q_result(r, n, d);
}
void symgmp_q_neg(mpq_ptr r, mpq_srcptr a) { if (r != a) symgmp_q_set(r, a); symgmp_z_neg(QN(r), QN(r)); }
void symgmp_q_abs(mpq_ptr r, mpq_srcptr a) { if (r != a) symgmp_q_set(r, a); symgmp_z_abs(QN(r), QN(r)); }
void symgmp_q_inv(mpq_ptr r, mpq_srcptr a) {
  if (q_conc(a)) { make_conc(QN(r)); make_conc(QD(r)); __gmpq_inv(r, a); return; }
  if (r != a) symgmp_q_set(r, a);
  symgmp_z_swap(QN(r), QD(r));
  if (sign_of(QD(r)) < 0) { symgmp_z_neg(QN(r), QN(r)); symgmp_z_neg(QD(r), QD(r)); }
}
void symgmp_q_mul_2exp(mpq_ptr r, mpq_srcptr a, mp_bitcnt_t n) {
  if (q_conc(a)) { make_conc(QN(r)); make_conc(QD(r)); __gmpq_mul_2exp(r, a, n); return; }
  mpz_t nn, d; __gmpz_init(nn); __gmpz_init(d);
  symgmp_z_mul_2exp(nn, QN(a), n); symgmp_z_set(d, QD(a));
  q_result(r, nn, d);
}
void symgmp_q_div_2exp(mpq_ptr r, mpq_srcptr a, mp_bitcnt_t n) {
  if (q_conc(a)) { make_conc(QN(r)); make_conc(QD(r)); __gmpq_div_2exp(r, a, n); return; }
  mpz_t nn, d; __gmpz_init(nn); __gmpz_init(d);
  symgmp_z_set(nn, QN(a)); symgmp_z_mul_2exp(d, QD(a), n);
  q_result(r, nn, d);
}
static expr q_diff(mpq_srcptr a, mpq_srcptr b) { return T(QN(a)) * T(QD(b)) - T(QN(b)) * T(QD(a)); }
int symgmp_q_rel(mpq_srcptr a, mpq_srcptr b, int op) {
  if (q_conc(a) && q_conc(b)) { int c = __gmpq_cmp(a, b); return op == 0 ? c == 0 : op == 1 ? c < 0 : c <= 0; }
  expr d = q_diff(a, b), z = ctx().int_val(0);
  return branch(op == 0 ? d == z : op == 1 ? d < z : d <= z);
}
int symgmp_q_cmp(mpq_srcptr a, mpq_srcptr b) {
  if (q_conc(a) && q_conc(b)) return __gmpq_cmp(a, b);
  expr d = q_diff(a, b), z = ctx().int_val(0);
  if (branch(d == z)) return 0;
  return branch(d < z) ? -1 : 1;
}
int symgmp_q_cmp_si(mpq_srcptr a, long n, unsigned long d) { mpq_t t; __gmpq_init(t); __gmpz_set_si(QN(t), n); __gmpz_set_ui(QD(t), d); int r = symgmp_q_cmp(a, t); __gmpq_clear(t); return r; }
int symgmp_q_cmp_ui(mpq_srcptr a, unsigned long n, unsigned long d) { mpq_t t; __gmpq_init(t); __gmpz_set_ui(QN(t), n); __gmpz_set_ui(QD(t), d); int r = symgmp_q_cmp(a, t); __gmpq_clear(t); return r; }
int symgmp_q_equal(mpq_srcptr a, mpq_srcptr b) { return symgmp_q_rel(a, b, 0); }
int symgmp_q_sgn(mpq_srcptr a) { return sign_of(QN(a)); }
double symgmp_q_get_d(mpq_srcptr a) {
  if (q_conc(a)) return __gmpq_get_d(a);
  mpq_t t; concretize_into(QN(t), QN(a)); concretize_into(QD(t), QD(a)); double d = __gmpq_get_d(t); __gmpq_clear(t); return d;
}
char* symgmp_q_get_str(char* s, int base, mpq_srcptr a) {
  if (q_conc(a)) return __gmpq_get_str(s, base, a);
  mpq_t t; concretize_into(QN(t), QN(a)); concretize_into(QD(t), QD(a)); char* r = __gmpq_get_str(s, base, t); __gmpq_clear(t); return r;
}
} // extern "C"

// ---------------------------------------------------------------- text I/O
std::ostream& operator<<(std::ostream& os, const mpz_class& z) {
  if (is_sym(z.get_mpz_t())) { os << "@S" << token_of(&sym_of(z.get_mpz_t())); return os; }
  char* s = __gmpz_get_str(0, 10, z.get_mpz_t()); os << s;
  void (*freefunc)(void*, size_t); __gmp_get_memory_functions(0, 0, &freefunc); freefunc(s, strlen(s) + 1);
  return os;
}
std::istream& operator>>(std::istream& is, mpz_class& z) {
  std::string s; if (!(is >> s)) return is;
  if (z.set_str(s, 10) != 0) is.setstate(std::ios::failbit);
  return is;
}
std::ostream& operator<<(std::ostream& os, const mpq_class& q) { os << q.get_num(); if (!(q.get_den() == 1)) os << "/" << q.get_den(); return os; }
std::istream& operator>>(std::istream& is, mpq_class& q) { std::string s; if (!(is >> s)) return is; if (q.set_str(s, 10) != 0) is.setstate(std::ios::failbit); return is; }
