// Engine S core: path condition, decisions, forking explorer (decision-prefix
// replay, worker processes), obligations, evidence output.
#include "symrt_internal.hh"
#include <cassert>
#include <cfenv>
#include <chrono>
#include <csignal>
#include <cstdio>
#include <cstdlib>
#include <cstring>
#include <deque>
#include <iostream>
#include <map>
#include <memory>
#include <sstream>
#include <fstream>
#include <poll.h>
#include <sys/wait.h>
#include <sys/resource.h>
#include <unistd.h>

using z3::expr;
namespace symrt {

// ------------------------------------------------------------------ state
static z3::context* g_ctx;
static z3::solver* g_solver;
static std::vector<std::unique_ptr<Term>> g_arena;
struct Decision { char kind; long v; std::vector<long> ex; };   // 'B','V','X'
static std::vector<Decision> g_prefix;
static std::vector<Decision> g_decisions;
static std::string g_dec_str;                   // serialised g_decisions (for crash reports)
static bool g_have_model = false;
static std::unique_ptr<z3::model> g_model;
static long g_fresh = 0;
static std::vector<std::pair<std::string, expr>> g_inputs;
static std::string g_inputs_json = "{}";        // input values in the current model
static char g_callsite[160] = "";               // set by the harness before a call that may crash (crash reports name it)
static char g_inputs_buf[8192] = "{}";           // async-signal-safe copy for the crash handler
static void sync_inputs_buf() { size_t n = g_inputs_json.size() < sizeof g_inputs_buf - 1 ? g_inputs_json.size() : 0; if (n) memcpy(g_inputs_buf, g_inputs_json.data(), n); else memcpy(g_inputs_buf, "null", 4), n = 4; g_inputs_buf[n] = 0; }
static std::map<std::string, std::string> g_facts;
static std::map<std::string, long> g_params;
static std::map<std::string, void (*)()> *g_harnesses;
static std::string g_harness_name;
static int g_out_fd = -1;                       // worker -> master pipe
static bool g_pending_abort = false;
bool g_in_runtime = false;
static volatile sig_atomic_t g_in_solver = 0;
static unsigned g_query_timeout_ms = 5000;
static unsigned g_path_timeout_s = 120;
static long g_conc_range = 4096;
static int g_viol_this_path = 0;

struct Path_Stats {
  long branches = 0, q_sat = 0, q_unsat = 0, q_unknown = 0, checks = 0, discharged = 0, concretizations = 0;
  double solver_s = 0;
  bool inconclusive = false, incomplete = false;
  std::string why;
};
static Path_Stats g_ps;

z3::context& ctx() { if (!g_ctx) g_ctx = new z3::context(); return *g_ctx; }
bool replaying() { return false; }

// Runtime section: no fault injection, and the default FPU rounding mode (PPL switches the FPU to
// round-upward for its own code; z3's arithmetic heuristics diverge under it).
struct Rt_Guard { bool old; int rm; Rt_Guard() : old(g_in_runtime), rm(fegetround()) { g_in_runtime = true; if (rm != FE_TONEAREST) fesetround(FE_TONEAREST); } ~Rt_Guard() { g_in_runtime = old; if (rm != FE_TONEAREST) fesetround(rm); } };

// ------------------------------------------------------------------ messages
static void send_line(const std::string& s) {
  if (g_out_fd < 0) return;
  std::string t = s; t += '\n';
  const char* p = t.data(); size_t n = t.size();
  while (n > 0) { ssize_t w = write(g_out_fd, p, n); if (w <= 0) { if (errno == EINTR) continue; _exit(71); } p += w; n -= w; }
}
static std::string json_escape(const std::string& s) {
  std::string r;
  for (char c : s) {
    if (c == '"' || c == '\\') { r += '\\'; r += c; }
    else if (c == '\n') r += "\\n";
    else if ((unsigned char)c < 0x20) r += ' ';
    else r += c;
  }
  return r;
}
static std::string ser_decision(const Decision& d) {
  std::ostringstream os;
  if (d.kind == 'B') os << (d.v ? "1" : "0");
  else if (d.kind == 'V') os << "v" << d.v;
  else { os << "x"; for (size_t i = 0; i < d.ex.size(); ++i) os << (i ? "," : "") << d.ex[i]; }
  return os.str();
}
static std::string ser_prefix(const std::vector<Decision>& p) {
  if (p.empty()) return "-";
  std::string s;
  for (size_t i = 0; i < p.size(); ++i) { if (i) s += ' '; s += ser_decision(p[i]); }
  return s;
}
static std::vector<Decision> parse_prefix(const std::string& s) {
  std::vector<Decision> p;
  if (s == "-" || s.empty()) return p;
  std::istringstream is(s); std::string tok;
  while (is >> tok) {
    Decision d; d.v = 0;
    if (tok == "1" || tok == "0") { d.kind = 'B'; d.v = tok == "1"; }
    else if (tok[0] == 'v') { d.kind = 'V'; d.v = atol(tok.c_str() + 1); }
    else { d.kind = 'X'; std::istringstream l(tok.substr(1)); std::string n; while (std::getline(l, n, ',')) d.ex.push_back(atol(n.c_str())); }
    p.push_back(d);
  }
  return p;
}
static void push_decision(const Decision& d) {
  g_decisions.push_back(d);
  if (!g_dec_str.empty()) g_dec_str += ' ';
  g_dec_str += ser_decision(d);
}
static void queue_alt(const Decision& last) {
  std::string s = g_dec_str;
  if (!s.empty()) s += ' ';
  s += ser_decision(last);
  send_line("F " + s);
}

// ------------------------------------------------------------------ solver

// External decision by the cvc5 binary on the current path condition plus an assumption.
// Returns sat/unsat/unknown; on sat stores the values of the inputs in g_ext_inputs_json.
static z3::check_result cvc5_check(const expr* assumption, unsigned timeout_ms);
static std::unique_ptr<z3::model> g_last_model;     // model of the last sat answer of timed_check
static int g_obligation_mode = 0;          // 0: incremental z3 (+fallbacks), 1: fresh z3 first, 2: external cvc5 first
static bool g_force_fresh = false;
static bool g_force_cvc5 = false;
static bool g_obligation_call = false;   // the query is an obligation (only its verdict and the inputs of a model are needed)
static std::string g_ext_inputs_json;     // inputs of the last sat answer when it came from cvc5
static bool g_last_sat_external = false;
static long g_cvc5_calls = 0;
static bool g_poisoned = false;          // a z3 exception (e.g. out of memory) may leave z3's internal locks held: retire this worker after the path
static long g_fallbacks = 0;
static z3::check_result timed_check(const expr* assumption) {
  auto t0 = std::chrono::steady_clock::now();
  z3::check_result r;
  g_in_solver = 1;
  g_last_sat_external = false;
  if (g_force_cvc5) {
    r = cvc5_check(assumption, g_query_timeout_ms * 2);
    if (r != z3::unknown) {
      g_in_solver = 0;
      g_ps.solver_s += std::chrono::duration<double>(std::chrono::steady_clock::now() - t0).count();
      if (r == z3::sat) { ++g_ps.q_sat; g_last_sat_external = true; } else ++g_ps.q_unsat;
      return r;
    }
  }
  if (g_force_fresh || g_force_cvc5) r = z3::unknown;
  else try {
    if (assumption) { z3::expr_vector v(ctx()); v.push_back(*assumption); r = g_solver->check(v); }
    else r = g_solver->check();
    if (r == z3::sat) g_last_model.reset(new z3::model(g_solver->get_model()));
  } catch (z3::exception& e) { r = z3::unknown; g_poisoned = true; }
  if (r == z3::unknown) {
    // The incremental core gave up: decide the same formula once in a fresh (non-incremental) solver,
    // which runs z3's preprocessing and tactic selection.
    try {
      ++g_fallbacks;
      z3::solver s2(ctx());
      z3::params p(ctx()); p.set("timeout", g_query_timeout_ms * 4); s2.set(p);
      z3::expr_vector as = g_solver->assertions();
      for (unsigned i = 0; i < as.size(); ++i) s2.add(as[i]);
      if (assumption) s2.add(*assumption);
      if (getenv("SYMRT_TRACE") && atoi(getenv("SYMRT_TRACE")) > 2) { std::ofstream d("/tmp/trace_s2.smt2"); d << s2.to_smt2(); d.close(); fprintf(stderr, "s2 check rm=%d\n", fegetround()); }
      r = s2.check();
      if (r == z3::sat) g_last_model.reset(new z3::model(s2.get_model()));
      if (r == z3::unknown && getenv("SYMRT_DUMP_UNKNOWN")) {
        static int nd = 0; std::ostringstream fn; fn << getenv("SYMRT_DUMP_UNKNOWN") << "/u" << getpid() << "_" << (nd++) << ".smt2";
        std::ofstream f(fn.str()); f << s2.to_smt2();
        fprintf(stderr, "unknown reason: %s\n", s2.reason_unknown().c_str());
      }
    } catch (z3::exception& e) { r = z3::unknown; g_poisoned = true; }
    if (r == z3::unknown && !g_force_cvc5 && g_obligation_call) {
      r = cvc5_check(assumption, g_query_timeout_ms * 4);
      if (r == z3::sat) g_last_sat_external = true;
    }
  }
  g_in_solver = 0;
  g_ps.solver_s += std::chrono::duration<double>(std::chrono::steady_clock::now() - t0).count();
  if (r == z3::sat) ++g_ps.q_sat; else if (r == z3::unsat) ++g_ps.q_unsat; else ++g_ps.q_unknown;
  return r;
}
static std::string model_inputs_json(z3::model& m) {
  std::ostringstream os; os << "{";
  bool first = true;
  for (auto& in : g_inputs) {
    expr v = m.eval(in.second, true);
    std::string s;
    if (v.is_numeral()) s = v.get_decimal_string(0); else { std::ostringstream t; t << v; s = t.str(); }
    os << (first ? "" : ",") << "\"" << json_escape(in.first) << "\":\"" << json_escape(s) << "\"";
    first = false;
  }
  os << "}";
  return os.str();
}

static z3::check_result cvc5_check(const expr* assumption, unsigned timeout_ms) {
  ++g_cvc5_calls;
  char fn[64]; snprintf(fn, sizeof fn, "/dev/shm/symrt_%d.smt2", (int)getpid());
  {
    std::ofstream f(fn);
    if (!f) return z3::unknown;
    z3::solver s2(ctx());
    z3::expr_vector as = g_solver->assertions();
    for (unsigned i = 0; i < as.size(); ++i) s2.add(as[i]);
    if (assumption) s2.add(*assumption);
    std::string body = s2.to_smt2();
    f << "(set-logic ALL)\n(set-option :produce-models true)\n" << body;
    if (!g_inputs.empty()) { f << "(get-value ("; for (auto& in : g_inputs) f << in.first << " "; f << "))\n"; }
  }
  char cmd[256]; snprintf(cmd, sizeof cmd, "cvc5 --tlimit=%u %s 2>/dev/null", timeout_ms, fn);
  FILE* p = popen(cmd, "r");
  if (!p) return z3::unknown;
  std::string out; char buf[4096]; size_t n;
  while ((n = fread(buf, 1, sizeof buf, p)) > 0) out.append(buf, n);
  pclose(p);
  unlink(fn);
  if (out.compare(0, 5, "unsat") == 0) return z3::unsat;
  if (out.compare(0, 3, "sat") != 0) return z3::unknown;
  // parse ((name value) (name (- value)) ...)
  std::ostringstream js; js << "{"; bool first = true;
  for (auto& in : g_inputs) {
    std::string key = "(" + in.first + " ";
    size_t k = out.find(key);
    std::string val = "0";
    if (k != std::string::npos) {
      size_t a = k + key.size(); size_t b = a; int depth = 0;
      while (b < out.size()) { if (out[b] == '(') ++depth; else if (out[b] == ')') { if (depth == 0) break; --depth; } ++b; }
      std::string t = out.substr(a, b - a); std::string digits; bool neg = t.find('-') != std::string::npos;
      for (char c : t) if (isdigit((unsigned char)c)) digits += c;
      val = (neg ? "-" : "") + digits;
    }
    js << (first ? "" : ",") << "\"" << json_escape(in.first) << "\":\"" << val << "\""; first = false;
  }
  js << "}";
  g_ext_inputs_json = js.str();
  return z3::sat;
}
[[noreturn]] void abort_path(const char* why) {
  g_ps.inconclusive = true; if (g_ps.why.empty()) g_ps.why = why;
  g_pending_abort = true;
  throw Abort_Path();
}
[[noreturn]] void out_of_bound(const std::string& why) {
  g_ps.incomplete = true; if (g_ps.why.empty()) g_ps.why = why;
  g_pending_abort = true;
  throw Abort_Path();
}
void poll_abort() { if (g_pending_abort) throw Abort_Path(); }

static void ensure_model() {
  if (g_have_model) return;
  z3::check_result r = timed_check(0);
  if (r == z3::sat) {
    g_model.reset(new z3::model(*g_last_model)); g_have_model = true;
    g_inputs_json = model_inputs_json(*g_model); sync_inputs_buf();
    return;
  }
  if (r == z3::unknown) abort_path("unknown on path condition");
  // infeasible prefix: can only happen after an 'unknown' alternative was queued
  g_pending_abort = true;
  throw Dead_End();
}
static bool in_extension() { return g_decisions.size() >= g_prefix.size(); }
void add_pc(const expr& f, bool keeps_model) {
  g_solver->add(f);
  if (!keeps_model) { g_have_model = false; if (in_extension()) ensure_model(); }
}

bool branch(expr c) {
  Rt_Guard rg;
  poll_abort();
  c = c.simplify();
  if (c.is_true()) return true;
  if (c.is_false()) return false;
  ++g_ps.branches;
  size_t pos = g_decisions.size();
  if (pos < g_prefix.size()) {
    const Decision& d = g_prefix[pos];
    if (d.kind != 'B') { fprintf(stderr, "symrt: replay mismatch (expected B at %zu, got %c) prefix=%s\n", pos, d.kind, ser_prefix(g_prefix).c_str()); abort_path("replay mismatch"); }
    push_decision(d);
    g_solver->add(d.v ? c : !c);
    g_have_model = false;
    if (in_extension()) ensure_model();
    return d.v != 0;
  }
  ensure_model();
  expr v = g_model->eval(c, true);
  bool d;
  if (v.is_true()) d = true; else if (v.is_false()) d = false;
  else abort_path("model evaluation of a branch condition is not Boolean");
  expr other = d ? !c : c;
  z3::check_result r = timed_check(&other);
  if (r != z3::unsat) {            // sat, or unknown (then the child decides / is inconclusive)
    Decision alt; alt.kind = 'B'; alt.v = !d;
    queue_alt(alt);
  }
  Decision dd; dd.kind = 'B'; dd.v = d;
  push_decision(dd);
  g_solver->add(d ? c : !c);       // current model still satisfies the path condition
  return d;
}

long value_decision(const std::function<expr(long)>& cond, const std::function<bool(z3::model&, long&)>& pick) {
  Rt_Guard rg;
  poll_abort();
  ++g_ps.branches;
  size_t pos = g_decisions.size();
  std::vector<long> excluded;
  if (pos < g_prefix.size()) {
    const Decision& d = g_prefix[pos];
    if (d.kind == 'V') {
      push_decision(d);
      g_solver->add(cond(d.v));
      g_have_model = false;
      if (in_extension()) ensure_model();
      return d.v;
    }
    if (d.kind != 'X') { fprintf(stderr, "symrt: replay mismatch (expected V/X at %zu)\n", pos); abort_path("replay mismatch"); }
    excluded = d.ex;
    for (long e : excluded) g_solver->add(!cond(e));
    g_have_model = false;
    // this is the last prefix item by construction
    z3::check_result r = timed_check(0);
    if (r == z3::unsat) { g_pending_abort = true; throw Dead_End(); }
    if (r == z3::unknown) abort_path("unknown enumerating values");
    g_model.reset(new z3::model(*g_last_model)); g_have_model = true;
  }
  else ensure_model();
  long v;
  if (!pick(*g_model, v)) out_of_bound("value decision outside the representable range");
  for (long e : excluded) if (e == v) abort_path("value decision repeated an excluded value");
  expr cv = cond(v);
  {
    // any other value feasible?  (the excluded ones are already negated in the path condition)
    expr other = !cv;
    z3::check_result r = timed_check(&other);
    if (r != z3::unsat) { Decision alt; alt.kind = 'X'; alt.v = 0; alt.ex = excluded; alt.ex.push_back(v); queue_alt(alt); }
  }
  Decision dd; dd.kind = 'V'; dd.v = v;
  push_decision(dd);
  g_solver->add(cv);
  g_inputs_json = model_inputs_json(*g_model); sync_inputs_buf();
  return v;
}

// ------------------------------------------------------------------ terms
Term* alloc_term(const expr& e, Iv iv) { Rt_Guard rg; g_arena.emplace_back(new Term(e, iv)); return g_arena.back().get(); }
long token_of(Term* t) { for (size_t i = g_arena.size(); i-- > 0; ) if (g_arena[i].get() == t) return (long)i; return -1; }
Term* term_of_token(long idx) { return (idx >= 0 && (size_t)idx < g_arena.size()) ? g_arena[idx].get() : 0; }
expr fresh_named(const char* base, bool real) {
  std::ostringstream os; os << "_" << base << (g_fresh++);
  return real ? ctx().real_const(os.str().c_str()) : ctx().int_const(os.str().c_str());
}
expr fresh_int(const std::string& b) { Rt_Guard rg; return fresh_named(b.c_str(), false); }
expr fresh_real(const std::string& b) { Rt_Guard rg; return fresh_named(b.c_str(), true); }
expr fresh_bool(const std::string& b) { Rt_Guard rg; std::ostringstream os; os << "_" << b << (g_fresh++); return ctx().bool_const(os.str().c_str()); }
void count_concretization() { ++g_ps.concretizations; }

long param(const std::string& name, long dflt) { auto it = g_params.find(name); return it == g_params.end() ? dflt : it->second; }

void assume(const expr& f) { Rt_Guard rg; poll_abort(); add_pc(f, false); }
void define(const expr& f) { Rt_Guard rg; g_solver->add(f); }
bool decide(const expr& f) { return branch(f); }
bool possible(const expr& f) {
  Rt_Guard rg;
  g_force_fresh = g_obligation_mode == 1; g_force_cvc5 = g_obligation_mode == 2; g_obligation_call = true;
  z3::check_result r = timed_check(&f);
  g_force_fresh = g_force_cvc5 = g_obligation_call = false;
  if (r == z3::unknown) abort_path("unknown in possible()");
  return r == z3::sat;
}
int choose(const std::string& name, int n) {
  Rt_Guard rg;
  if (n <= 1) return 0;
  expr v = ctx().int_const(("sel_" + name).c_str());
  g_inputs.push_back(std::make_pair("sel_" + name, v));
  add_pc(v >= 0 && v < ctx().int_val(n), false);
  long r = value_decision([&](long k) { return v == ctx().int_val((int64_t)k); },
                          [&](z3::model& m, long& out) { expr e = m.eval(v, true); int64_t x; if (!e.is_numeral_i64(x)) return false; out = x; return true; });
  return (int)r;
}

static void record_violation(const char* kind, const std::string& label, const std::string& inputs_json, const std::string& witness) {
  if (++g_viol_this_path > 4) return;
  std::ostringstream os;
  os << "V {\"kind\":\"" << kind << "\",\"harness\":\"" << json_escape(g_harness_name) << "\",\"label\":\"" << json_escape(label)
     << "\",\"inputs\":" << inputs_json << ",\"facts\":{";
  bool first = true;
  for (auto& f : g_facts) { os << (first ? "" : ",") << "\"" << json_escape(f.first) << "\":\"" << json_escape(f.second) << "\""; first = false; }
  os << "},\"prefix\":\"" << g_dec_str << "\",\"witness\":\"" << json_escape(witness.substr(0, 1500)) << "\"}";
  send_line(os.str());
}

bool check(const expr& f, const std::string& label) {
  Rt_Guard rg;
  poll_abort();
  ++g_ps.checks;
  if (getenv("SYMRT_TRACE")) { fprintf(stderr, "check %s\n", label.c_str()); if (atoi(getenv("SYMRT_TRACE")) > 1) { std::ofstream d("/tmp/trace_last.smt2"); d << g_solver->to_smt2() << "(assert " << !f << ")\n(check-sat)\n"; } }
  expr nf = (!f).simplify();
  if (nf.is_false()) { ++g_ps.discharged; return true; }
  g_force_fresh = g_obligation_mode == 1; g_force_cvc5 = g_obligation_mode == 2; g_obligation_call = true;
  z3::check_result r = timed_check(&nf);
  g_force_fresh = g_force_cvc5 = g_obligation_call = false;
  if (r == z3::unsat) { ++g_ps.discharged; return true; }
  if (r == z3::unknown) { g_ps.inconclusive = true; if (g_ps.why.empty()) g_ps.why = "unknown on obligation " + label; return false; }
  if (g_last_sat_external) { record_violation("check", label, g_ext_inputs_json, "(model from cvc5)"); return false; }
  z3::model m = *g_last_model;
  std::ostringstream w; w << m;
  record_violation("check", label, model_inputs_json(m), w.str());
  return false;
}
bool check_all(const std::vector<std::pair<z3::expr, std::string> >& obs) {
  // one query for the conjunction; individual queries only if it is not valid
  if (obs.empty()) return true;
  Rt_Guard rg;
  poll_abort();
  expr nf = ctx().bool_val(false);
  for (auto& o : obs) nf = nf || !o.first;
  nf = nf.simplify();
  if (getenv("SYMRT_TRACE")) { fprintf(stderr, "check_all %zu first=%s\n", obs.size(), obs[0].second.c_str()); if (atoi(getenv("SYMRT_TRACE")) > 1) { std::ofstream d("/tmp/trace_last.smt2"); d << g_solver->to_smt2() << "(assert " << nf << ")\n(check-sat)\n"; } }
  g_force_fresh = g_obligation_mode == 1; g_force_cvc5 = g_obligation_mode == 2; g_obligation_call = true;
  z3::check_result r = nf.is_false() ? z3::unsat : timed_check(&nf);
  g_force_fresh = g_force_cvc5 = g_obligation_call = false;
  if (r == z3::unsat) { g_ps.checks += obs.size(); g_ps.discharged += obs.size(); return true; }
  bool all = true;
  for (auto& o : obs) all = check(o.first, o.second) && all;
  return all;
}
void fresh_obligations(bool on) { g_obligation_mode = on ? 1 : 0; }
void obligation_solver(int mode) { g_obligation_mode = mode; }
void reach(const std::string& label) { note("reach:" + label); }
void require(bool ok, const std::string& label) {
  Rt_Guard rg;
  ++g_ps.checks;
  if (ok) { ++g_ps.discharged; return; }
  ensure_model();
  record_violation("require", label, g_inputs_json, "");
}
void note(const std::string& key) { Rt_Guard rg; send_line("N " + key); }
void fact(const std::string& k, const std::string& v) { Rt_Guard rg; g_facts[k] = v; }
void at(const char* callsite) { strncpy(g_callsite, callsite, sizeof g_callsite - 1); g_callsite[sizeof g_callsite - 1] = 0; }

// defined in symrt_gmp.cc
void set_input_term(mpz_class& z, const expr& v, long lo, long hi);
mpz_class input(const std::string& name, long lo, long hi) {
  Rt_Guard rg;
  mpz_class z;
  if (lo == hi) { z = lo; return z; }
  expr v = ctx().int_const(name.c_str());
  g_inputs.push_back(std::make_pair(name, v));
  add_pc(v >= ctx().int_val((int64_t)lo) && v <= ctx().int_val((int64_t)hi), false);
  set_input_term(z, v, lo, hi);
  return z;
}

// ------------------------------------------------------------------ faults
static unsigned g_fault_kinds = 0;
static bool g_fault_fired = false;
static long g_fault_points = 0;
void faults_arm(unsigned kinds) { g_fault_kinds = kinds; }
void faults_disarm() { g_fault_kinds = 0; }
bool fault_here(unsigned kind);
bool fault_fired() { return g_fault_fired; }
bool fault_here(unsigned kind) {
  if (g_in_runtime || !(g_fault_kinds & kind) || g_fault_fired || !g_solver) return false;
  Rt_Guard rg;
  ++g_fault_points;
  // a free symbolic Boolean: both sides feasible => the explorer forks here
  std::ostringstream os; os << "fault_" << g_fault_points;
  expr b = ctx().bool_const(os.str().c_str());
  bool fire = branch(b);
  if (fire) { g_fault_fired = true; std::ostringstream f; f << g_fault_points << "/kind" << kind; g_facts["fault_point"] = f.str(); }
  return fire;
}

} // namespace symrt
#define RT_FAULT(kind) symrt::fault_here(kind)
#include "alloc_hooks.inc"
namespace symrt {
void faults_ledger(bool on) { ledger_arm(on); }
// ------------------------------------------------------------------ registry
Harness_Reg::Harness_Reg(const char* name, void (*fn)()) {
  if (!g_harnesses) g_harnesses = new std::map<std::string, void (*)()>();
  (*g_harnesses)[name] = fn;
}

// ------------------------------------------------------------------ worker
static void crash_handler(int sig) {
  // Async context: only write() of preformatted buffers.
  static char buf[16384];
  const char* kind = sig == SIGALRM ? "timeout" : "crash";
  int n = snprintf(buf, sizeof buf, "V {\"kind\":\"%s\",\"harness\":\"%s\",\"label\":\"signal %d%s%s\",\"inputs\":%s,\"facts\":{},\"prefix\":\"%s\",\"witness\":\"%s\"}\n",
                   kind, g_harness_name.c_str(), sig, g_callsite[0] ? " in " : "", g_callsite, g_have_model ? g_inputs_buf : "null", g_dec_str.c_str(), g_in_solver ? "in-solver" : "");
  if (n > 0 && g_out_fd >= 0) { ssize_t w = write(g_out_fd, buf, n < (int)sizeof buf ? n : (int)sizeof buf - 1); (void)w; }
  _exit(70);
}
static void terminate_handler() { crash_handler(SIGABRT); }

static void run_path(void (*fn)(), const std::string& prefix) {
  g_prefix = parse_prefix(prefix);
  g_decisions.clear(); g_dec_str.clear(); g_have_model = false; g_fresh = 0; g_inputs.clear(); g_inputs_json = "{}"; sync_inputs_buf();
  g_facts.clear(); g_callsite[0] = 0; g_ps = Path_Stats(); g_pending_abort = false; g_viol_this_path = 0;
  g_fault_kinds = 0; g_fault_fired = false; g_fault_points = 0; g_obligation_mode = 0; g_ledger_on = false; g_live_blocks = 0;
  z3::solver s(ctx());
  z3::params p(ctx()); p.set("timeout", g_query_timeout_ms); s.set(p);
  g_solver = &s;
  const char* status = "ok";
  alarm(g_path_timeout_s);
  try {
    if (g_prefix.empty()) ensure_model();
    fn();
    poll_abort();
    if (g_decisions.size() < g_prefix.size()) { g_ps.inconclusive = true; g_ps.why = "prefix not consumed (nondeterministic harness?)"; }
  }
  catch (Abort_Path&) { }
  catch (Dead_End&) { status = "deadend"; }
  catch (std::exception& e) {
    g_in_runtime = true;
    if (g_pending_abort) { }
    else { try { ensure_model(); } catch (...) { } record_violation("exception", std::string("unexpected exception: ") + e.what(), g_inputs_json, ""); }
    g_in_runtime = false;
  }
  alarm(0);
  g_in_runtime = true;
  if (strcmp(status, "deadend") != 0) { if (g_ps.inconclusive) status = "inconclusive"; else if (g_ps.incomplete) status = "incomplete"; }
  std::ostringstream os;
  os << "P " << status << " " << g_ps.branches << " " << g_ps.q_sat << " " << g_ps.q_unsat << " " << g_ps.q_unknown << " "
     << (long)(g_ps.solver_s * 1e6) << " " << g_ps.checks << " " << g_ps.discharged << " " << g_ps.concretizations << " " << g_fault_points
     << " " << json_escape(g_ps.why);
  if (g_ps.checks == 0 && strcmp(status, "ok") == 0) { /* path made no obligation */ }
  send_line(os.str());
  if (g_poisoned) _exit(0);          // the master respawns a clean worker
  g_solver = 0; g_model.reset(); g_last_model.reset(); g_arena.clear();
  g_in_runtime = false;
}

static void worker_main(void (*fn)(), int in_fd, int out_fd) {
  g_out_fd = out_fd;
  struct sigaction sa; memset(&sa, 0, sizeof sa); sa.sa_handler = crash_handler;
  sigaction(SIGABRT, &sa, 0); sigaction(SIGSEGV, &sa, 0); sigaction(SIGFPE, &sa, 0); sigaction(SIGBUS, &sa, 0); sigaction(SIGALRM, &sa, 0); sigaction(SIGILL, &sa, 0);
  std::set_terminate(terminate_handler);
  FILE* in = fdopen(in_fd, "r");
  char* line = 0; size_t cap = 0;
  while (getline(&line, &cap, in) > 0) {
    std::string s(line); while (!s.empty() && (s.back() == '\n' || s.back() == '\r')) s.pop_back();
    if (s == "Q") break;
    run_path(fn, s);
  }
  _exit(0);
}

// ------------------------------------------------------------------ master
struct Worker { pid_t pid; int to_fd, from_fd; std::string buf; bool busy; std::string prefix; bool got_v_crash; double since; };
struct Totals {
  long paths = 0, deadends = 0, inconclusive = 0, incomplete = 0, crashes = 0, branches = 0, q_sat = 0, q_unsat = 0, q_unknown = 0,
       checks = 0, discharged = 0, concretizations = 0, fault_points = 0, max_depth = 0, hung = 0;
  double solver_s = 0;
  std::vector<std::string> violations;     // JSON objects (at most 5000 kept per label; witness text only for the first 5)
  std::map<std::string, long> viol_by_label; long viol_total = 0;
  std::map<std::string, long> notes;
  std::map<std::string, long> why;
  std::vector<std::string> sample_prefixes;
};

static Worker spawn_worker(void (*fn)()) {
  int to[2], from[2];
  if (pipe(to) || pipe(from)) { perror("pipe"); exit(2); }
  pid_t pid = fork();
  if (pid == 0) {
    close(to[1]); close(from[0]);
    struct rlimit rl; rl.rlim_cur = rl.rlim_max = (rlim_t)6 << 30; setrlimit(RLIMIT_AS, &rl);
    worker_main(fn, to[0], from[1]);
  }
  close(to[0]); close(from[1]);
  Worker w; w.pid = pid; w.to_fd = to[1]; w.from_fd = from[0]; w.busy = false; w.got_v_crash = false;
  return w;
}

int main_entry(int argc, char** argv) {
  std::string harness, out_path, one_prefix; int nworkers = 16; long max_paths = -1; double budget_s = -1; bool list = false;
  for (int i = 1; i < argc; ++i) {
    std::string a = argv[i];
    auto next = [&]() -> std::string { if (i + 1 >= argc) { fprintf(stderr, "missing value for %s\n", a.c_str()); exit(2); } return argv[++i]; };
    if (a == "--harness") harness = next();
    else if (a == "--set") { std::string kv = next(); size_t e = kv.find('='); g_params[kv.substr(0, e)] = atol(kv.c_str() + e + 1); }
    else if (a == "--workers") nworkers = atoi(next().c_str());
    else if (a == "--max-paths") max_paths = atol(next().c_str());
    else if (a == "--budget") budget_s = atof(next().c_str());
    else if (a == "--query-timeout-ms") g_query_timeout_ms = atoi(next().c_str());
    else if (a == "--path-timeout") g_path_timeout_s = atoi(next().c_str());
    else if (a == "--out") out_path = next();
    else if (a == "--list") list = true;
    else if (a == "--one-prefix") one_prefix = next();
    else { fprintf(stderr, "unknown option %s\n", a.c_str()); return 2; }
  }
  if (list) { if (g_harnesses) for (auto& h : *g_harnesses) printf("%s\n", h.first.c_str()); return 0; }
  if (!g_harnesses || !g_harnesses->count(harness)) { fprintf(stderr, "no such harness '%s'\n", harness.c_str()); return 2; }
  g_harness_name = harness;
  void (*fn)() = (*g_harnesses)[harness];
  if (!one_prefix.empty()) { g_out_fd = 1; run_path(fn, one_prefix); return 0; }   // debugging aid: one path, in this process
  signal(SIGPIPE, SIG_IGN);
  auto t0 = std::chrono::steady_clock::now();
  std::deque<std::string> work; work.push_back("-");
  std::vector<Worker> ws;
  for (int i = 0; i < nworkers; ++i) ws.push_back(spawn_worker(fn));
  Totals T; bool truncated = false;
  long dispatched = 0;
  auto elapsed = [&]() { return std::chrono::duration<double>(std::chrono::steady_clock::now() - t0).count(); };
  for (;;) {
    bool stop = (max_paths >= 0 && dispatched >= max_paths) || (budget_s > 0 && elapsed() > budget_s);
    if (stop && !work.empty()) truncated = true;
    int busy = 0;
    for (auto& w : ws) {
      if (!w.busy && !work.empty() && !stop) {
        w.prefix = work.back(); work.pop_back();      // LIFO: depth first keeps the frontier small
        std::string msg = w.prefix + "\n";
        if (write(w.to_fd, msg.data(), msg.size()) != (ssize_t)msg.size()) { perror("write to worker"); }
        w.busy = true; w.got_v_crash = false; ++dispatched; w.since = elapsed();
      }
      if (w.busy) ++busy;
    }
    if (busy == 0) break;
    // watchdog: a worker that neither finishes nor dies (e.g. blocked inside the solver library) is killed;
    // its path is counted as inconclusive
    for (auto& w : ws) if (w.busy && elapsed() - w.since > g_path_timeout_s + 45.0) { kill(w.pid, SIGKILL); ++T.hung; w.since = elapsed() + 1e9; }
    std::vector<pollfd> pf;
    for (auto& w : ws) { pollfd p; p.fd = w.busy ? w.from_fd : -1; p.events = POLLIN; p.revents = 0; pf.push_back(p); }
    poll(pf.data(), pf.size(), 1000);
    for (size_t k = 0; k < ws.size(); ++k) {
      Worker& w = ws[k];
      if (!w.busy || !(pf[k].revents & (POLLIN | POLLHUP))) continue;
      char buf[65536];
      ssize_t n = read(w.from_fd, buf, sizeof buf);
      if (n > 0) w.buf.append(buf, n);
      size_t nl;
      while ((nl = w.buf.find('\n')) != std::string::npos) {
        std::string line = w.buf.substr(0, nl); w.buf.erase(0, nl + 1);
        if (line.size() < 2) continue;
        char tag = line[0]; std::string body = line.substr(2);
        if (tag == 'F') work.push_back(body);
        else if (tag == 'N') ++T.notes[body];
        else if (tag == 'V') { if (body.find("\"kind\":\"crash\"") != std::string::npos || body.find("\"kind\":\"timeout\"") != std::string::npos) w.got_v_crash = true;
                               size_t lp = body.find("\"label\":\""); std::string lab = lp == std::string::npos ? "?" : body.substr(lp + 9, body.find('"', lp + 9) - lp - 9);
                               long& cnt = T.viol_by_label[lab]; ++cnt; ++T.viol_total;
                               if (cnt > 5) { size_t wp = body.find(",\"witness\":\""); if (wp != std::string::npos) body = body.substr(0, wp) + "}"; }
                               if (cnt <= 5000) T.violations.push_back(body); }
        else if (tag == 'P') {
          std::istringstream is(body); std::string status; long br, qs, qu, qk, us, ch, di, co, fp;
          is >> status >> br >> qs >> qu >> qk >> us >> ch >> di >> co >> fp; std::string why; std::getline(is, why);
          if (status == "deadend") ++T.deadends;
          else { ++T.paths; if (status == "inconclusive") ++T.inconclusive; if (status == "incomplete") ++T.incomplete;
                 if (status != "ok") ++T.why[why];
                 if (T.sample_prefixes.size() < 5 && w.prefix.size() > 8) T.sample_prefixes.push_back(w.prefix); }
          T.branches += br; T.q_sat += qs; T.q_unsat += qu; T.q_unknown += qk; T.solver_s += us / 1e6; T.checks += ch; T.discharged += di;
          T.concretizations += co; T.fault_points += fp;
          if (br > T.max_depth) T.max_depth = br;
          w.busy = false;
        }
      }
      if (n == 0 || (n < 0 && errno != EINTR && errno != EAGAIN)) {
        // worker died
        int st; waitpid(w.pid, &st, 0);
        if (w.busy && w.since > 1e8) { ++T.paths; ++T.inconclusive; ++T.why[" worker hung (killed by the watchdog)"]; }
        else if (w.busy) {
          ++T.paths; ++T.crashes;
          if (!w.got_v_crash) {
            std::ostringstream os; os << "{\"kind\":\"crash\",\"harness\":\"" << harness << "\",\"label\":\"worker died status " << st << "\",\"inputs\":null,\"facts\":{},\"prefix\":\"" << w.prefix << "\",\"witness\":\"\"}";
            T.violations.push_back(os.str());
          }
        }
        close(w.to_fd); close(w.from_fd);
        ws[k] = spawn_worker(fn);
      }
    }
  }
  for (auto& w : ws) { if (write(w.to_fd, "Q\n", 2) < 0) {} close(w.to_fd); }
  for (auto& w : ws) { int st; waitpid(w.pid, &st, 0); }
  double wall = elapsed();
  std::ostringstream js;
  js << "{\"harness\":\"" << harness << "\",\"params\":{";
  { bool f = true; for (auto& p : g_params) { js << (f ? "" : ",") << "\"" << p.first << "\":" << p.second; f = false; } }
  js << "},\"paths\":" << T.paths << ",\"deadends\":" << T.deadends << ",\"inconclusive\":" << T.inconclusive << ",\"incomplete\":" << T.incomplete
     << ",\"crashes\":" << T.crashes << ",\"truncated\":" << (truncated ? "true" : "false") << ",\"frontier_left\":" << work.size()
     << ",\"branches\":" << T.branches << ",\"queries_sat\":" << T.q_sat << ",\"queries_unsat\":" << T.q_unsat << ",\"queries_unknown\":" << T.q_unknown
     << ",\"solver_s\":" << T.solver_s << ",\"wall_s\":" << wall << ",\"obligations\":" << T.checks << ",\"discharged\":" << T.discharged
     << ",\"concretizations\":" << T.concretizations << ",\"fault_points\":" << T.fault_points << ",\"max_decisions_on_a_path\":" << T.max_depth
     << ",\"workers\":" << nworkers << ",\"notes\":{";
  { bool f = true; for (auto& n : T.notes) { js << (f ? "" : ",") << "\"" << json_escape(n.first) << "\":" << n.second; f = false; } }
  js << "},\"why_not_ok\":{";
  { bool f = true; for (auto& n : T.why) { js << (f ? "" : ",") << "\"" << json_escape(n.first) << "\":" << n.second; f = false; } }
  js << "},\"sample_prefixes\":[";
  for (size_t i = 0; i < T.sample_prefixes.size(); ++i) js << (i ? "," : "") << "\"" << T.sample_prefixes[i] << "\"";
  js << "],\"violations_total\":" << T.viol_total << ",\"violations_by_label\":{";
  { bool f = true; for (auto& n : T.viol_by_label) { js << (f ? "" : ",") << "\"" << json_escape(n.first) << "\":" << n.second; f = false; } }
  js << "},\"violations\":[";
  for (size_t i = 0; i < T.violations.size(); ++i) js << (i ? ",\n" : "\n") << T.violations[i];
  js << "]}\n";
  if (out_path.empty()) std::cout << js.str(); else { std::ofstream f(out_path); f << js.str(); }
  fprintf(stderr, "[symrt] %s paths=%ld deadends=%ld inconclusive=%ld incomplete=%ld crashes=%ld violations=%zu obligations=%ld discharged=%ld queries=%ld solver_s=%.1f wall_s=%.1f%s\n",
          harness.c_str(), T.paths, T.deadends, T.inconclusive, T.incomplete, T.crashes, T.violations.size(), T.checks, T.discharged,
          T.q_sat + T.q_unsat + T.q_unknown, T.solver_s, wall, truncated ? " TRUNCATED" : "");
  return 0;
}
} // namespace symrt

int main(int argc, char** argv) { return symrt::main_entry(argc, argv); }
