// Internal interface between the explorer core and the GMP models.
#ifndef SYMRT_INTERNAL_HH
#define SYMRT_INTERNAL_HH
#include "symrt.hh"
#include <functional>

namespace symrt {
typedef __int128 i128;
// Conservative interval annotation.  |bound| >= IV_INF means unbounded.
static const i128 IV_INF = ((i128)1) << 100;
struct Iv { i128 lo, hi; };
struct Term { z3::expr e; Iv iv; Term(const z3::expr& e_, Iv iv_) : e(e_), iv(iv_) {} };

struct Abort_Path { };          // inconclusive / incomplete path
struct Dead_End { };            // exhausted value alternatives: not a path

Term* alloc_term(const z3::expr& e, Iv iv);
long token_of(Term* t);         // index in the arena (for text I/O tokens)
Term* term_of_token(long idx);  // 0 if invalid
// Decide a symbolic Boolean (forks).
bool branch(z3::expr c);
// Value decision: conditions cond(v) must be mutually exclusive and exhaustive
// under the path condition; pick(model) returns a value whose condition holds
// in the model.  Returns the chosen value; alternatives are queued.
long value_decision(const std::function<z3::expr(long)>& cond,
                    const std::function<bool(z3::model&, long&)>& pick);
void add_pc(const z3::expr& f, bool keeps_model);
z3::expr fresh_named(const char* base, bool real);
void count_concretization();
[[noreturn]] void abort_path(const char* why);
// fault hook used by allocation models
bool fault_here(unsigned kind);
extern bool g_in_runtime;       // true while runtime code allocates (never faulted)
}
#endif
