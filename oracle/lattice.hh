// Oracle for rational grids with CONCRETE data.  Points range over the
// sub-lattice (1/D) Z^n of Q^n (D = 2520 = lcm(1..10)): x_j = X_j / D with X_j an
// unbounded integer SMT variable.  Every membership formula is then linear
// integer arithmetic with `mod' by constants, which z3 decides quickly; mixed
// real/integer formulations (is_int over reals) make z3 and cvc5 diverge.
// The restriction to denominators dividing D is part of the stated bound.
#ifndef ORACLE_LATTICE_HH
#define ORACLE_LATTICE_HH
#include "oracle.hh"

namespace oracle {
typedef std::vector<mpq_class> QVec;
static long GRID_D = 2520;
struct IPoint { std::vector<expr> X; };     // integer numerators over GRID_D
inline IPoint fresh_gpoint(unsigned n) { IPoint p; for (unsigned i = 0; i < n; ++i) p.X.push_back(symrt::fresh_int("X")); return p; }
inline expr zval(const mpz_class& z) { return symrt::ctx().int_val(z.get_str().c_str()); }
// linear form  c.x + c0  with rational coefficients, x = X / D
struct LinQ { QVec c; mpq_class c0; explicit LinQ(unsigned n) : c(n, mpq_class(0)), c0(0) {} };
// integer numerator N(X) and positive denominator E with  form(x) = N(X) / E
inline void scaled(const LinQ& f, const IPoint& p, expr& num, mpz_class& den) {
  mpz_class E(1);
  for (auto& q : f.c) { mpq_class t = q / mpq_class(GRID_D); t.canonicalize(); mpz_lcm(E.get_mpz_t(), E.get_mpz_t(), t.get_den_mpz_t()); }
  { mpq_class t = f.c0; t.canonicalize(); mpz_lcm(E.get_mpz_t(), E.get_mpz_t(), t.get_den_mpz_t()); }
  num = symrt::ctx().int_val(0);
  for (unsigned j = 0; j < f.c.size(); ++j) { mpq_class t = f.c[j] / mpq_class(GRID_D) * mpq_class(E); t.canonicalize(); if (t != 0) num = num + zval(t.get_num()) * p.X[j]; }
  { mpq_class t = f.c0 * mpq_class(E); t.canonicalize(); num = num + zval(t.get_num()); }
  den = E;
}
inline expr g_isint(const LinQ& f, const IPoint& p) { expr n = symrt::ctx().int_val(0); mpz_class E; scaled(f, p, n, E); if (E == 1) return bval(true); return z3::mod(n, zval(E)) == symrt::ctx().int_val(0); }
inline expr g_iszero(const LinQ& f, const IPoint& p) { expr n = symrt::ctx().int_val(0); mpz_class E; scaled(f, p, n, E); return n == symrt::ctx().int_val(0); }
inline mpq_class cq(const PPL::Coefficient& c, const PPL::Coefficient& d) { mpq_class q(mpz_class(c.get_si()), mpz_class(d.get_si())); q.canonicalize(); return q; }

// a conjunction of concrete congruences / equalities  a.x + b = 0 (mod m)
struct CgRow { QVec a; mpq_class b, m; };
struct CgSet {
  unsigned n; std::vector<CgRow> rows;
  explicit CgSet(unsigned n_) : n(n_) {}
  void add(const std::vector<mpz_class>& a, const mpz_class& b, const mpz_class& m) { CgRow r; for (auto& e : a) r.a.push_back(mpq_class(mpz_class(e.get_si()))); r.b = mpq_class(mpz_class(b.get_si())); r.m = mpq_class(mpz_class(m.get_si())); rows.push_back(r); }
  static CgSet from(const PPL::Congruence_System& cgs, unsigned n) {
    CgSet s(n);
    for (PPL::Congruence_System::const_iterator i = cgs.begin(); i != cgs.end(); ++i) {
      CgRow r; PPL::Coefficient one(1);
      for (unsigned j = 0; j < n; ++j) r.a.push_back(j < i->space_dimension() ? cq(i->coefficient(PPL::Variable(j)), one) : mpq_class(0));
      r.b = cq(i->inhomogeneous_term(), one); r.m = i->is_equality() ? mpq_class(0) : cq(i->modulus(), one);
      s.rows.push_back(r);
    }
    return s;
  }
  expr contains(const IPoint& p) const {
    expr f = bval(true);
    for (auto& r : rows) { LinQ l(n); if (r.m == 0) { l.c = r.a; l.c0 = r.b; f = f && g_iszero(l, p); } else { for (unsigned j = 0; j < n; ++j) l.c[j] = r.a[j] / r.m; l.c0 = r.b / r.m; f = f && g_isint(l, p); } }
    return f;
  }
  bool trivially_universe() const { for (auto& r : rows) { for (auto& e : r.a) if (e != 0) return false; if (r.m == 0 ? r.b != 0 : mpq_class(r.b / r.m).get_den() != 1) return false; } return true; }
};

// p + Z-span(params) + Q-span(lines)
struct Lattice {
  unsigned n; bool empty; QVec p; std::vector<QVec> params, lines;
  explicit Lattice(unsigned n_) : n(n_), empty(true) {}
  static Lattice from(const PPL::Grid_Generator_System& ggs, unsigned n) {
    Lattice L(n);
    std::vector<QVec> pts;
    for (PPL::Grid_Generator_System::const_iterator g = ggs.begin(); g != ggs.end(); ++g) {
      QVec v(n, mpq_class(0));
      PPL::Coefficient d = g->is_line() ? PPL::Coefficient(1) : g->divisor();
      for (unsigned j = 0; j < n && j < g->space_dimension(); ++j) v[j] = cq(g->coefficient(PPL::Variable(j)), d);
      if (g->is_line()) L.lines.push_back(v); else if (g->is_parameter()) L.params.push_back(v); else pts.push_back(v);
    }
    if (pts.empty()) return L;
    L.empty = false; L.p = pts[0];
    for (size_t i = 1; i < pts.size(); ++i) { QVec q(n); for (unsigned j = 0; j < n; ++j) q[j] = pts[i][j] - pts[0][j]; L.params.push_back(q); }
    return L;
  }
  // exact echelon reduction; the resulting formula is linear in x
  expr contains(const IPoint& x) const {
    if (empty) return bval(false);
    std::vector<LinQ> t(n, LinQ(n));
    for (unsigned j = 0; j < n; ++j) { t[j].c[j] = 1; t[j].c0 = -p[j]; }
    auto axpy_t = [&](const LinQ& coef, const QVec& h) { for (unsigned j = 0; j < n; ++j) { if (h[j] == 0) continue; for (unsigned k = 0; k < n; ++k) t[j].c[k] -= coef.c[k] * h[j]; t[j].c0 -= coef.c0 * h[j]; } };
    std::vector<QVec> ls = lines, ps = params;
    std::vector<bool> used(n, false);
    for (size_t i = 0; i < ls.size(); ++i) {
      int c = -1; for (unsigned j = 0; j < n; ++j) if (!used[j] && ls[i][j] != 0) { c = j; break; }
      if (c < 0) continue;
      used[c] = true;
      QVec h = ls[i]; mpq_class piv = h[c]; for (auto& e : h) e /= piv;
      for (size_t k = i + 1; k < ls.size(); ++k) { mpq_class f = ls[k][c]; if (f != 0) for (unsigned j = 0; j < n; ++j) ls[k][j] -= f * h[j]; }
      for (auto& q : ps) { mpq_class f = q[c]; if (f != 0) for (unsigned j = 0; j < n; ++j) q[j] -= f * h[j]; }
      LinQ cc = t[c];
      axpy_t(cc, h);
    }
    expr f = bval(true);
    std::vector<QVec> rest = ps;
    for (unsigned c = 0; c < n; ++c) {
      if (used[c]) continue;
      for (;;) {
        int best = -1; int cnt = 0;
        for (size_t i = 0; i < rest.size(); ++i) if (rest[i][c] != 0) { ++cnt; if (best < 0 || abs(rest[i][c]) < abs(rest[best][c])) best = (int)i; }
        if (cnt <= 1) break;
        for (size_t i = 0; i < rest.size(); ++i) if ((int)i != best && rest[i][c] != 0) {
          mpq_class ratio = rest[i][c] / rest[best][c];
          mpz_class fl; mpz_fdiv_q(fl.get_mpz_t(), ratio.get_num_mpz_t(), ratio.get_den_mpz_t());
          mpq_class m(fl);
          for (unsigned j = 0; j < n; ++j) rest[i][j] -= m * rest[best][j];
        }
      }
      int pv = -1; for (size_t i = 0; i < rest.size(); ++i) if (rest[i][c] != 0) pv = (int)i;
      if (pv < 0) continue;
      QVec h = rest[pv]; rest.erase(rest.begin() + pv);
      LinQ z(n); for (unsigned k = 0; k < n; ++k) z.c[k] = t[c].c[k] / h[c]; z.c0 = t[c].c0 / h[c];
      f = f && g_isint(z, x);
      axpy_t(z, h);
    }
    for (unsigned j = 0; j < n; ++j) { bool nz = t[j].c0 != 0; for (unsigned k = 0; k < n; ++k) if (t[j].c[k] != 0) nz = true; if (nz) f = f && g_iszero(t[j], x); }
    return f;
  }
};
} // namespace oracle
#endif
