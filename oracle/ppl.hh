#include "ppl_src.hh"
