// Prelude equivalent to the generated ppl.hh, but reading the individual
// headers of /repo/src directly, so that header edits in the working tree are
// always picked up (ppl.hh is a build product and may be stale).
#ifndef VERIF_PPL_SRC_HH
#define VERIF_PPL_SRC_HH
#include "ppl-config.h"
#include "version.hh"
#include "ppl_include_files.hh"
#endif
