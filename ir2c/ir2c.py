#!/usr/bin/env python3
"""ir2c: LLVM 14 textual IR -> plain C, for CBMC (Engine K).

usage: ir2c.py module.ll [--entry f1,f2,...] [--stub name,...] > out.c

All functions reachable from the entry points and defined in the module are translated.
Pointers are `char*`; memory is accessed through casts (byte-offset GEP).  Integer values live
in unsigned C types of their width; signed operations cast locally.  First-class aggregates
({i32, i1} of the overflow intrinsics, small by-value structs) become generated C structs.
External callees: operator new/delete -> ir2c_alloc/ir2c_free, llvm.mem* -> libc, overflow /
abs / min / max / ctlz / cttz / bswap / fshl intrinsics -> helpers in ir2c_rt.h, C++ throw
machinery -> `ir2c_threw = 1; return`, anything else -> an extern prototype (the harness must
supply a stub).  Unsupported instructions abort the translation with the instruction printed.
"""
import re, sys

class Unsupported(Exception):
    pass

def split_top(s, sep=','):
    out, depth, cur, inq = [], 0, '', False
    for ch in s:
        if ch == '"': inq = not inq
        if not inq:
            if ch in '{[(<': depth += 1
            if ch in '}])>': depth -= 1
        if ch == sep and depth == 0 and not inq:
            out.append(cur.strip()); cur = ''
        else:
            cur += ch
    if cur.strip(): out.append(cur.strip())
    return out

class Module:
    def __init__(self, text):
        self.text = text
        self.structs = {}
        for m in re.finditer(r'^(%[\w".:$<>,\- ]+?) = type (\{.*\}|<\{.*\}>|opaque)$', text, re.M):
            self.structs[m.group(1)] = m.group(2)
        self.funcs = {}
        class _FM:      # match-like record: group(0) header line, (1) name, (2) argument list, (3) body
            def __init__(self, g): self.g = g
            def group(self, k): return self.g[k]
        for m in re.finditer(r'^define [^@\n]*?@("[^"]+"|[\w.$]+)\(', text, re.M):
            i0 = m.end(); depth = 1; i1 = i0
            while depth:
                ch = text[i1]
                if ch == '(': depth += 1
                elif ch == ')': depth -= 1
                i1 += 1
            eol = text.index('\n', i1)
            end = text.index('\n}', eol)
            self.funcs[m.group(1).strip('"')] = _FM({0: text[m.start():eol], 1: m.group(1), 2: text[i0:i1 - 1], 3: text[eol + 1:end + 1]})
        self.decls = {}
        for m in re.finditer(r'^declare [^@\n]*?@("[^"]+"|[\w.$]+)\((.*?)\)', text, re.M):
            self.decls[m.group(1).strip('"')] = m
        self.globals = {}
        for m in re.finditer(r'^@("[^"]+"|[\w.$]+) = (.*)$', text, re.M):
            self.globals[m.group(1).strip('"')] = m.group(2)
        self.aliases = {}
        for m in re.finditer(r'^@("[^"]+"|[\w.$]+) = [^\n]*?\balias [^\n]*?@("[^"]+"|[\w.$]+)\s*$', text, re.M):
            self.aliases[m.group(1).strip('"')] = m.group(2).strip('"')
        self.addr_taken = set()
        self.icalls = {}    # dispatcher name -> (return C type, [argument C types])
        self.aggs = {}      # C struct name -> list of field C types
        self.externs = {}
        self.used_globals = set()

    # ---------------------------------------------------------------- types
    def fields(self, t):
        body = self.structs[t] if t in self.structs else t
        packed = body.startswith('<{')
        body = body.strip()
        body = body[2:-2] if packed else body[1:-1]
        return [f for f in split_top(body)], packed

    def is_struct(self, t):
        return t in self.structs or t.startswith('{') or t.startswith('<{')

    def sizeof(self, t):
        t = t.strip()
        if t.endswith('*') or t == 'ptr': return 8
        m = re.fullmatch(r'i(\d+)', t)
        if m: return max(1, (int(m.group(1)) + 7) // 8)
        if t == 'float': return 4
        if t == 'double': return 8
        if t == 'x86_fp80': return 16
        m = re.fullmatch(r'\[(\d+) x (.*)\]', t)
        if m: return int(m.group(1)) * self.sizeof(m.group(2))
        if self.is_struct(t):
            fs, packed = self.fields(t)
            off, al = 0, 1
            for f in fs:
                a = 1 if packed else self.alignof(f)
                off = (off + a - 1) // a * a + self.sizeof(f); al = max(al, a)
            return (off + al - 1) // al * al if fs else 0
        raise Unsupported('sizeof ' + t)

    def alignof(self, t):
        t = t.strip()
        if t.endswith('*') or t == 'ptr': return 8
        m = re.fullmatch(r'i(\d+)', t)
        if m: return min(8, max(1, (int(m.group(1)) + 7) // 8))
        if t == 'float': return 4
        if t == 'double': return 8
        if t == 'x86_fp80': return 16
        m = re.fullmatch(r'\[(\d+) x (.*)\]', t)
        if m: return self.alignof(m.group(2))
        if self.is_struct(t):
            fs, packed = self.fields(t)
            return 1 if packed or not fs else max(self.alignof(f) for f in fs)
        raise Unsupported('alignof ' + t)

    def field_off(self, t, idx):
        fs, packed = self.fields(t)
        off = 0
        for i, f in enumerate(fs):
            a = 1 if packed else self.alignof(f)
            off = (off + a - 1) // a * a
            if i == idx: return off, f
            off += self.sizeof(f)
        raise Unsupported('field %d of %s' % (idx, t))

    def ctype(self, t):
        t = t.strip()
        if t.endswith('*') or t == 'ptr': return 'char*'
        m = re.fullmatch(r'i(\d+)', t)
        if m:
            n = int(m.group(1))
            for w, c in ((8, 'unsigned char'), (16, 'unsigned short'), (32, 'unsigned int'), (64, 'unsigned long'), (128, 'unsigned __int128')):
                if n <= w: return c
        if t in ('float', 'double'): return t
        if t == 'x86_fp80': return 'long double'
        if t == 'void': return 'void'
        if self.is_struct(t):
            fs, _ = self.fields(t)
            name = 'agg_' + re.sub(r'\W+', '_', '_'.join(fs))[:60] + '_%d' % (abs(hash(tuple(fs))) % 9973)
            self.aggs[name] = [self.ctype(f) for f in fs]
            return 'struct ' + name
        raise Unsupported('ctype ' + t)

    def sctype(self, t):
        return self.ctype(t).replace('unsigned', 'signed')

    def bits(self, t):
        return int(t.strip()[1:])

def cname(n):
    return 'f_' + re.sub(r'\W', '_', n) if not re.fullmatch(r'[A-Za-z_]\w*', n) or n.startswith('_Z') else n

def R(p):
    return p.replace('<T>', TYPE_RE)

TYPE_RE = r'(?:%"[^"]*"|%[\w.$:]+|\{[^}]*\}|<\{[^}]*\}>|\[\d+ x [^\]]+\]|[\w]+)\**(?: \((?:[^()]|\([^()]*\))*\)\*+)?'

class FuncTranslator:
    def __init__(self, mod, name, signal_hook=False):
        self.mod, self.name, self.signal_hook = mod, name, signal_hook
        self.decls = {}
        self.code = []
        self.callees = set()
        self.stack = set()     # values known to point into this function's own allocas

    def val(self, tok, ty=None):
        tok = tok.strip()
        mod = self.mod
        if tok.startswith('%'): return 'v' + re.sub(r'\W', '_', tok[1:])
        if tok.startswith('@'):
            g = tok[1:].strip('"')
            g = mod.aliases.get(g, g)
            if g in mod.funcs or g in mod.decls:
                self.callees.add(g); mod.addr_taken.add(g)
                if g not in mod.funcs: mod.externs.setdefault(g, ('void', []))
                return '((char*)&%s)' % cname(g)
            mod.used_globals.add(g); return '((char*)&g_%s)' % re.sub(r'\W', '_', g)
        if tok == 'true': return '1'
        if tok == 'false': return '0'
        if tok == 'null': return '((char*)0)'
        if tok in ('undef', 'poison', 'zeroinitializer'):
            if ty and mod.is_struct(ty): return '(%s){0}' % mod.ctype(ty)
            return '0'
        if re.fullmatch(r'-?\d+', tok):
            n = int(tok)
            if ty and re.fullmatch(r'i\d+', ty) and mod.bits(ty) > 64: return '((unsigned __int128)%d)' % n if n >= 0 else '((unsigned __int128)(__int128)%d)' % n
            if n == -9223372036854775808: return '(-9223372036854775807L-1)'
            return '(%dL)' % n if abs(n) < 2**63 else '(%dUL)' % n
        if re.fullmatch(r'-?[\d.]+e[+-]?\d+', tok) or re.fullmatch(r'-?\d+\.\d*', tok): return '(%s)' % tok
        m = re.fullmatch(r'0x([0-9A-Fa-f]{16})', tok)
        if m:
            import struct
            d = struct.unpack('>d', bytes.fromhex(m.group(1)))[0]
            if d != d: return '(0.0/0.0)'
            if d in (float('inf'), float('-inf')): return '(1.0/0.0)' if d > 0 else '(-1.0/0.0)'
            return '(%r)' % d
        m = re.match(r'getelementptr inbounds \((.*)\)$', tok) or re.match(r'getelementptr \((.*)\)$', tok)
        if m: return self.gep_expr(m.group(1))
        m = re.match(R(r'bitcast \((<T>) (.*) to (<T>)\)$'), tok)
        if m: return self.val(m.group(2))
        m = re.match(R(r'ptrtoint \((<T>) (.*) to (<T>)\)$'), tok)
        if m: return '((unsigned long)%s)' % self.val(m.group(2))
        m = re.match(R(r'inttoptr \((<T>) (.*) to (<T>)\)$'), tok)
        if m: return '((char*)(unsigned long)%s)' % self.val(m.group(2))
        raise Unsupported('operand ' + tok)

    def cast(self, t, e): return '((%s)(%s))' % (self.mod.ctype(t), e)
    def scast(self, t, e): return '((%s)(%s))' % (self.mod.sctype(t), e)

    def gep_expr(self, body):
        mod = self.mod
        parts = split_top(body)
        ty = parts[0]
        bm = re.match(R(r'(<T>) (.*)'), parts[1])
        e = self.val(bm.group(2)); t = ty
        for k, p in enumerate(parts[2:]):
            im = re.match(r'(?:inrange )?(i\d+) (.*)', p)
            ity, iv = im.groups()
            if k == 0:
                if iv.strip() != '0': e += ' + (long)%s * %d' % (self.scast(ity, self.val(iv)), mod.sizeof(t))
            elif mod.is_struct(t):
                off, t = mod.field_off(t, int(iv)); e += ' + %d' % off
            else:
                am = re.fullmatch(r'\[(\d+) x (.*)\]', t.strip())
                if not am: raise Unsupported('gep into ' + t)
                t = am.group(2); e += ' + (long)%s * %d' % (self.scast(ity, self.val(iv)), mod.sizeof(t))
        return '((char*)(%s))' % e

    def setv(self, dst, ty, e, raw=False):
        self.decls[self.val(dst)] = self.mod.ctype(ty)
        self.code.append('  %s = %s;' % (self.val(dst), e if raw or self.mod.is_struct(ty) else self.cast(ty, e)))

    def mask(self, ty, e):
        n = self.mod.bits(ty)
        if n in (8, 16, 32, 64, 128): return e
        return '(%s & ((1UL << %d) - 1))' % (e, n)

    def translate(self):
        mod = self.mod
        m = mod.funcs[self.name]
        args, body = m.group(2), m.group(3)
        head = m.group(0).split('\n')[0]
        rm = re.match(R(r'define (?:[\w()]+ )*?(<T>) @'), re.sub(r'\b(dso_local|internal|linkonce_odr|weak_odr|weak|hidden|noundef|zeroext|signext|nonnull|noalias|unnamed_addr|local_unnamed_addr|available_externally|private|protected)\b ?', '', head))
        self.rett = rm.group(1)
        params = []
        for k, a in enumerate(split_top(args)):
            if a == '...': continue
            pm = re.match(R(r'(<T>)'), a)
            ty = pm.group(1)
            nm = re.search(r'(%[\w.]+)\s*$', a)
            params.append((ty, nm.group(1) if nm else '%' + str(k)))
        self.params = params
        blocks, cur = [], (str(len(params)), [])
        for ln in body.split('\n'):
            if ln.strip().startswith(';') or not ln.strip(): continue
            ln = re.sub(r', ![\w.]+ !\d+', '', ln.split(' ; ')[0].rstrip())
            ln = re.sub(r' #\d+$', '', ln)
            bm = re.match(r'^([\w.]+):', ln)
            if bm:
                blocks.append(cur); cur = (bm.group(1), [])
            elif ln.strip().startswith('to label ') and cur[1]:
                cur[1][-1] += ' ' + ln.strip()
            else:
                cur[1].append(ln.strip())
        blocks.append(cur)
        # switch instructions span several lines: join them
        for bi, (lbl, ins) in enumerate(blocks):
            j, out = 0, []
            while j < len(ins):
                if ins[j].startswith('switch ') and not ins[j].rstrip().endswith(']'):
                    s = ins[j]; j += 1
                    while not ins[j].startswith(']'): s += ' ' + ins[j]; j += 1
                    s += ' ]'; out.append(s)
                else: out.append(ins[j])
                j += 1
            blocks[bi] = (lbl, out)
        self.phis = {}
        for lbl, ins in blocks:
            for i in ins:
                pm = re.match(R(r'(%[\w.]+) = phi (<T>) (.*)'), i)
                if pm:
                    dst, ty, rest = pm.groups()
                    inc = re.findall(r'\[ (.+?), %([\w.]+) \]', rest)
                    self.phis.setdefault(lbl, []).append((dst, ty, inc))
                    self.decls[self.val(dst)] = mod.ctype(ty)
        for lbl, ins in blocks:
            self.code.append('L%s: ;' % lbl)
            for i in ins:
                if ' = phi ' in i: continue
                try:
                    self.instr(lbl, i)
                except Unsupported:
                    raise
                except Exception as e:
                    raise Unsupported('%s: %s  [%s]' % (self.name, i, e))
        ps = ', '.join('%s %s' % (mod.ctype(t), self.val(n)) for t, n in params)
        out = ['%s %s(%s) {' % (mod.ctype(self.rett), cname(self.name), ps)]
        pnames = set(self.val(n) for t, n in params)
        for d, t in self.decls.items():
            if d not in pnames: out.append('  %s %s;' % (t, d))
        out += self.code
        out.append('}')
        return '\n'.join(out)

    def sig(self):
        return (self.mod.ctype(self.rett), tuple(self.mod.ctype(t) for t, n in self.params))

    def proto(self):
        mod = self.mod
        ps = ', '.join('%s' % mod.ctype(t) for t, n in self.params)
        return '%s %s(%s);' % (mod.ctype(self.rett), cname(self.name), ps or 'void')

    def edge(self, frm, to):
        s = ''
        if to in self.phis:
            tmp = []
            for dst, ty, inc in self.phis[to]:
                for v, p in inc:
                    if p == frm: tmp.append((self.val(dst), self.val(v, ty), ty))
            for k, (d, e, ty) in enumerate(tmp): s += '%s t%d_ = %s; ' % (self.mod.ctype(ty), k, e if self.mod.is_struct(ty) else self.cast(ty, e))
            for k, (d, e, ty) in enumerate(tmp): s += '%s = t%d_; ' % (d, k)
        return '{ %sgoto L%s; }' % (s, to)

    def ret_default(self):
        if self.rett == 'void': return 'return;'
        if self.mod.is_struct(self.rett): return 'return (%s){0};' % self.mod.ctype(self.rett)
        return 'return 0;'

    def call(self, dst, rhs, lbl):
        mod = self.mod
        im = re.match(R(r'(?:tail |musttail |notail )?(call|invoke) (?:[\w()]+ )*?(<T>) (?:\([^)]*\)\*? )?(@"[^"]+"|@[\w.$]+|%[\w.]+)\((.*)\)(.*)$'), re.sub(r'\b(noundef|zeroext|signext|nonnull|noalias|nocapture|readonly|readnone|writeonly|immarg|returned|inreg|fastcc|nsw|nuw|nnan|ninf|nsz|arcp|contract|afn|reassoc|fast)\b ?', '', re.sub(r'\b(?:nofpclass\([^)]*\)|align \d+|dereferenceable(?:_or_null)?\(\d+\)|sret\([^)]*\)|byval\([^)]*\)) ?', '', rhs)))
        if not im: raise Unsupported('call syntax: ' + rhs)
        kind, rty, callee, argstr, tail = im.groups()
        args = []
        for a in split_top(argstr):
            if a.startswith('metadata'): continue
            am = re.match(R(r'(<T>) (.*)'), a)
            args.append((am.group(1), am.group(2)))
        after = ''
        if kind == 'invoke':
            tm = re.search(r'to label %([\w.]+) unwind label %([\w.]+)', tail)
            after = tm.group(1)
        def finish(e, is_void=False):
            if dst and not is_void and rty != 'void': self.setv(dst, rty, e, raw=mod.is_struct(rty))
            else: self.code.append('  %s;' % e)
            if self.signal_hook: self.code.append('  verif_maybe_signal();')
            if kind == 'invoke':
                self.code.append('  if (ir2c_threw) %s' % self.ret_default())
                self.code.append('  ' + self.edge(lbl, after))
        avals = [self.val(v, t) for t, v in args]
        if callee.startswith('%'):
            # indirect call through a function pointer
            # indirect call: explicit dispatch over the address-taken functions of the same signature
            sig = (mod.ctype(rty), tuple(mod.ctype(t) for t, v in args))
            dn = 'ir2c_icall_' + re.sub(r'\W+', '_', sig[0] + '__' + '_'.join(sig[1]))
            mod.icalls[dn] = sig
            finish('%s(%s)' % (dn, ', '.join([self.val(callee)] + avals)))
            return
        f = callee[1:].strip('"')
        f = mod.aliases.get(f, f)
        if f.startswith('llvm.'):
            if re.match(r'llvm\.(lifetime|dbg|assume|experimental\.noalias|experimental\.\.scope|invariant|prefetch|stackrestore|donothing)', f):
                if kind == 'invoke': self.code.append('  ' + self.edge(lbl, after))
                return
            if f.startswith('llvm.stacksave'): finish('((char*)0)'); return
            mm = re.match(r'llvm\.(sadd|ssub|smul|uadd|usub|umul)\.with\.overflow\.i(\d+)', f)
            if mm:
                op, n = mm.group(1), int(mm.group(2))
                ct = mod.ctype(rty)
                tmp = self.val(dst)
                self.decls[tmp] = ct
                a, b = avals
                wide_s = 'long' if n <= 32 else '__int128'
                wide_u = 'unsigned long' if n <= 32 else 'unsigned __int128'
                sc = mod.sctype('i%d' % n); uc = mod.ctype('i%d' % n)
                if op[0] == 's':
                    c = {'sadd': '+', 'ssub': '-', 'smul': '*'}[op]
                    self.code.append('  { %s w_ = (%s)(%s)%s %s (%s)(%s)%s; %s.f0 = (%s)w_; %s.f1 = (w_ != (%s)(%s)w_); }' % (wide_s, wide_s, sc, a, c, wide_s, sc, b, tmp, uc, tmp, wide_s, sc))
                else:
                    c = {'uadd': '+', 'usub': '-', 'umul': '*'}[op]
                    if op == 'usub': self.code.append('  { %s.f0 = (%s)((%s)%s - (%s)%s); %s.f1 = ((%s)%s < (%s)%s); }' % (tmp, uc, uc, a, uc, b, tmp, uc, a, uc, b))
                    else: self.code.append('  { %s w_ = (%s)(%s)%s %s (%s)(%s)%s; %s.f0 = (%s)w_; %s.f1 = (w_ != (%s)(%s)w_); }' % (wide_u, wide_u, uc, a, c, wide_u, uc, b, tmp, uc, tmp, wide_u, uc))
                if kind == 'invoke': self.code.append('  ' + self.edge(lbl, after))
                return
            mm = re.match(r'llvm\.(smax|smin|umax|umin)\.i(\d+)', f)
            if mm:
                op, ty = mm.group(1), 'i' + mm.group(2)
                cf = self.scast if op[0] == 's' else self.cast
                c = '>' if op.endswith('max') else '<'
                finish('(%s %s %s ? %s : %s)' % (cf(ty, avals[0]), c, cf(ty, avals[1]), avals[0], avals[1])); return
            mm = re.match(r'llvm\.abs\.i(\d+)', f)
            if mm:
                ty = 'i' + mm.group(1)
                finish('(%s < 0 ? (%s)(0 - %s) : %s)' % (self.scast(ty, avals[0]), mod.ctype(ty), self.cast(ty, avals[0]), avals[0])); return
            mm = re.match(r'llvm\.(ctlz|cttz|ctpop|bswap)\.i(\d+)', f)
            if mm: finish('ir2c_%s%s(%s)' % (mm.group(1), mm.group(2), avals[0])); return
            mm = re.match(r'llvm\.(fshl|fshr)\.i(\d+)', f)
            if mm: finish('ir2c_%s%s(%s)' % (mm.group(1), mm.group(2), ', '.join(avals))); return
            mm = re.match(r'llvm\.mem(cpy|move|set)', f)
            if mm:
                fn = 'mem' + mm.group(1)
                szm = re.fullmatch(r'\((\d+)L\)', avals[2].strip())
                if szm and int(szm.group(1)) <= 256 and int(szm.group(1)) % 8 == 0 and (mm.group(1) != 'set' or re.fullmatch(r'\(0L\)', avals[1].strip())):
                    # small constant-size block operations become word accesses (no byte-level array reasoning)
                    nw = int(szm.group(1)) // 8
                    if mm.group(1) == 'set': body = ' '.join('((char**)d_)[%d] = 0;' % k for k in range(nw)); hdr = 'char* d_ = %s;' % avals[0]
                    else:
                        hdr = 'char* d_ = %s; char* s_ = %s; char* w_[%d];' % (avals[0], avals[1], nw)
                        body = ' '.join('w_[%d] = ((char**)s_)[%d];' % (k, k) for k in range(nw)) + ' ' + ' '.join('((char**)d_)[%d] = w_[%d];' % (k, k) for k in range(nw))
                    finish('{ %s %s }' % (hdr, body), True); return
                if mm.group(1) == 'set': finish('memset(%s, (int)(unsigned char)%s, (unsigned long)%s)' % tuple(avals[:3]), True)
                else: finish('%s(%s, %s, (unsigned long)%s)' % ((fn,) + tuple(avals[:3])), True)
                return
            mm = re.match(r'llvm\.experimental\.constrained\.(fadd|fsub|fmul|fdiv|frem)\.', f)
            if mm:
                c = {'fadd': '+', 'fsub': '-', 'fmul': '*', 'fdiv': '/'}.get(mm.group(1))
                if c is None: raise Unsupported('constrained frem')
                finish('(%s %s %s)' % (avals[0], c, avals[1])); return
            mm = re.match(r'llvm\.experimental\.constrained\.(sitofp|uitofp|fptosi|fptoui|fpext|fptrunc)\.', f)
            if mm:
                op = mm.group(1); t1 = args[0][0]
                src = self.scast(t1, avals[0]) if op == 'sitofp' else avals[0]
                if op == 'fptosi': finish('((%s)(%s)%s)' % (mod.ctype(rty), mod.sctype(rty), src)); return
                finish('((%s)%s)' % (mod.ctype(rty), src)); return
            mm = re.match(r'llvm\.experimental\.constrained\.fcmps?\.', f)
            if mm: raise Unsupported('constrained fcmp (predicate is metadata)')
            mm = re.match(r'llvm\.(fabs|sqrt|floor|ceil|trunc|rint|nearbyint|fma|fmuladd|copysign)\.(f32|f64|f80)', f)
            if mm:
                suf = {'f32': 'f', 'f64': '', 'f80': 'l'}[mm.group(2)]
                fn = mm.group(1) if mm.group(1) != 'fmuladd' else 'fma'
                finish('%s%s(%s)' % (fn, suf, ', '.join(avals))); return
            raise Unsupported('intrinsic ' + f)
        if f in ('_Znwm', '_Znam', '_ZnwmRKSt9nothrow_t', '_ZnamRKSt9nothrow_t'):
            finish('ir2c_alloc((unsigned long)%s)' % avals[0]); return
        if f in ('_ZdlPv', '_ZdaPv', '_ZdlPvm', '_ZdaPvm'):
            finish('ir2c_free(%s)' % avals[0], True); return
        if f.startswith('__cxa_') or f.startswith('_ZSt') and 'throw' in f or f in ('_Unwind_Resume', '__clang_call_terminate', '_ZSt9terminatev'):
            if f in ('__cxa_allocate_exception',): finish('ir2c_alloc((unsigned long)%s)' % avals[0]); return
            if f in ('__cxa_begin_catch', '__cxa_end_catch', '__cxa_free_exception', '__cxa_guard_acquire', '__cxa_guard_release', '__cxa_atexit'):
                finish('0' if rty != 'void' else '(void)0', rty == 'void'); return
            self.code.append('  ir2c_threw = 1; %s' % self.ret_default()); return
        if f in mod.funcs:
            self.callees.add(f)
        else:
            mod.externs[f] = (rty, [t for t, v in args])
        finish('%s(%s)' % (cname(f), ', '.join(avals)))

    def instr(self, lbl, i):
        mod = self.mod
        m2 = re.match(r'(%[\w.]+) = (.*)', i)
        dst, rhs = (m2.group(1), m2.group(2)) if m2 else (None, i)
        op = rhs.split()[0]
        if op in ('tail', 'musttail', 'notail') or op in ('call', 'invoke'):
            self.call(dst, rhs, lbl); return
        if op in ('add', 'sub', 'mul', 'and', 'or', 'xor', 'shl', 'lshr', 'udiv', 'urem'):
            pa = split_top(re.sub(r'^\w+ (?:nsw |nuw |exact )*', '', rhs)); mm = re.match(r'(\S+) (.+)$', pa[0]); ty, a, b = mm.group(1), mm.group(2), pa[1]
            c = {'add': '+', 'sub': '-', 'mul': '*', 'and': '&', 'or': '|', 'xor': '^', 'shl': '<<', 'lshr': '>>', 'udiv': '/', 'urem': '%'}[op]
            wide = 'unsigned __int128' if mod.bits(ty) > 32 and op == 'mul' else None
            ea, eb = self.cast(ty, self.val(a, ty)), self.cast(ty, self.val(b, ty))
            if op in ('add', 'sub', 'mul') and mod.bits(ty) < 32:   # avoid int promotion overflow UB
                ea, eb = '(unsigned int)' + ea, '(unsigned int)' + eb
            self.setv(dst, ty, self.mask(ty, '%s %s %s' % (ea, c, eb))); return
        if op in ('sdiv', 'srem', 'ashr'):
            mm = re.match(r'\w+ (?:exact )*(\S+) (.+?), (.+)$', rhs); ty, a, b = mm.groups()
            c = {'sdiv': '/', 'srem': '%', 'ashr': '>>'}[op]
            self.setv(dst, ty, '%s %s %s' % (self.scast(ty, self.val(a, ty)), c, self.scast(ty, self.val(b, ty)))); return
        if op in ('fadd', 'fsub', 'fmul', 'fdiv'):
            mm = re.match(r'\w+ (?:[a-z]+ )*?(float|double|x86_fp80) (.+?), (.+)$', rhs); ty, a, b = mm.groups()
            c = {'fadd': '+', 'fsub': '-', 'fmul': '*', 'fdiv': '/'}[op]
            self.setv(dst, ty, '%s %s %s' % (self.val(a), c, self.val(b))); return
        if op == 'fneg':
            mm = re.match(r'fneg (?:[a-z]+ )*?(float|double|x86_fp80) (.+)$', rhs); self.setv(dst, mm.group(1), '-%s' % self.val(mm.group(2))); return
        if op == 'icmp':
            pm_ = re.match(r'icmp (\w+) (.*)$', rhs); pred = pm_.group(1); pa = split_top(pm_.group(2)); mm = re.match(R(r'(<T>) (.+)$'), pa[0]); ty, a, b = mm.group(1), mm.group(2), pa[1]
            c = {'eq': '==', 'ne': '!=', 'lt': '<', 'le': '<=', 'gt': '>', 'ge': '>='}[pred[-2:]]
            if ty.endswith('*') and pred in ('eq', 'ne'): f = lambda t, e: '((char*)(%s))' % e      # no pointer-to-integer conversion
            elif ty.endswith('*'): f = lambda t, e: '((unsigned long)(%s))' % e
            else: f = self.scast if pred.startswith('s') else self.cast
            self.decls[self.val(dst)] = 'unsigned char'
            self.code.append('  %s = (%s %s %s);' % (self.val(dst), f(ty, self.val(a, ty)), c, f(ty, self.val(b, ty)))); return
        if op == 'fcmp':
            mm = re.match(r'fcmp (?:[a-z]+ )*?(\w+) (float|double|x86_fp80) (.+?), (.+)$', rhs); pred, ty, a, b = mm.groups()
            a, b = self.val(a), self.val(b)
            unord = '(%s != %s || %s != %s)' % (a, a, b, b)
            base = {'eq': '==', 'ne': '!=', 'lt': '<', 'le': '<=', 'gt': '>', 'ge': '>='}.get(pred[1:])
            if pred == 'ord': e = '!%s' % unord
            elif pred == 'uno': e = unord
            elif pred == 'true': e = '1'
            elif pred == 'false': e = '0'
            elif pred[0] == 'o': e = '(!%s && %s %s %s)' % (unord, a, base, b)
            else: e = '(%s || %s %s %s)' % (unord, a, base, b)
            self.decls[self.val(dst)] = 'unsigned char'
            self.code.append('  %s = %s;' % (self.val(dst), e)); return
        if op in ('sext', 'zext', 'trunc'):
            mm = re.match(r'\w+ (\S+) (.+) to (\S+)$', rhs); t1, a, t2 = mm.groups()
            if op == 'sext': e = self.scast(t2, self.scast(t1, self.val(a))) if t1 != 'i1' else '(-(%s)(%s & 1))' % (mod.sctype(t2), self.val(a))
            elif op == 'zext': e = self.cast(t1, self.val(a)) if t1 != 'i1' else '(%s & 1)' % self.val(a)
            else: e = self.val(a) if t2 != 'i1' else '(%s & 1)' % self.val(a)
            self.setv(dst, t2, self.mask(t2, e) if t2 != 'i1' else e); return
        if op in ('sitofp', 'uitofp', 'fptosi', 'fptoui', 'fpext', 'fptrunc'):
            mm = re.match(r'\w+ (\S+) (.+) to (\S+)$', rhs); t1, a, t2 = mm.groups()
            if op == 'sitofp': e = '(%s)%s' % (mod.ctype(t2), self.scast(t1, self.val(a)))
            elif op == 'fptosi': e = '(%s)(%s)%s' % (mod.ctype(t2), mod.sctype(t2), self.val(a))
            else: e = '(%s)%s' % (mod.ctype(t2), self.val(a))
            self.setv(dst, t2, e, raw=True); return
        if op == 'bitcast':
            mm = re.match(R(r'bitcast (<T>) (.+) to (<T>)$'), rhs); t1, a, t2 = mm.groups()
            if t1.endswith('*') and t2.endswith('*'):
                if a.strip() in self.stack: self.stack.add(dst)
                self.setv(dst, t2, self.val(a)); return
            self.decls[self.val(dst)] = mod.ctype(t2); tmp = self.val(dst)
            self.code.append('  { %s s_ = %s; memcpy(&%s, &s_, sizeof s_); }' % (mod.ctype(t1), self.val(a), tmp)); return
        if op == 'ptrtoint':
            mm = re.match(R(r'ptrtoint (<T>) (.+) to (\S+)$'), rhs); self.setv(dst, mm.group(3), '(unsigned long)%s' % self.val(mm.group(2))); return
        if op == 'inttoptr':
            mm = re.match(R(r'inttoptr (\S+) (.+) to (<T>)$'), rhs); self.setv(dst, mm.group(3), '(char*)(unsigned long)%s' % self.val(mm.group(2)), raw=True); return
        if op == 'freeze':
            mm = re.match(R(r'freeze (<T>) (.+)$'), rhs); self.setv(dst, mm.group(1), self.val(mm.group(2), mm.group(1))); return
        if op == 'select':
            pa = split_top(re.sub(r'^select (?:[a-z]+ )*?i1 ', '', rhs)); c = pa[0]; mm = re.match(R(r'(<T>) (.+)$'), pa[1]); ty, a = mm.groups(); b = re.match(R(r'(<T>) (.+)$'), pa[2]).group(2)
            self.setv(dst, ty, '%s ? %s : %s' % (self.val(c), self.val(a, ty), self.val(b, ty)), raw=mod.is_struct(ty)); return
        if op == 'load':
            pa = split_top(re.sub(r'^load (?:volatile |atomic )?', '', rhs)); ty = pa[0]; p = re.match(R(r'(<T>) (.+)$'), pa[1]).group(2)
            self.decls[self.val(dst)] = mod.ctype(ty)
            self.code.append('  %s = *(%s*)%s;' % (self.val(dst), mod.ctype(ty), self.val(p))); return
        if op == 'store':
            pa = split_top(re.sub(r'^store (?:volatile |atomic )?', '', rhs)); mm = re.match(R(r'(<T>) (.+)$'), pa[0]); ty, v = mm.groups(); p = re.match(R(r'(<T>) (.+)$'), pa[1]).group(2)
            self.code.append('  *(%s*)%s = %s;' % (mod.ctype(ty), self.val(p), self.val(v, ty) if mod.is_struct(ty) else self.cast(ty, self.val(v, ty))))
            if self.signal_hook and p.strip() not in self.stack: self.code.append('  verif_maybe_signal();')
            return
        if op == 'alloca':
            mm = re.match(R(r'alloca (<T>)(?:, (\S+) (.+?))?(?:, align \d+)?$'), rhs); ty = mm.group(1)
            n = mod.sizeof(ty)
            buf = self.val(dst) + '_buf'
            cnt = self.val(mm.group(3)) if mm.group(3) else '1'
            if mm.group(3): self.code.append('  %s = ir2c_alloc((unsigned long)%s * %d);' % (self.val(dst), cnt, n))
            else:
                self.decls[buf + '[%d]' % max(1, (n + 7) // 8)] = 'char*'
                self.code.append('  %s = (char*)%s;' % (self.val(dst), buf))
            self.decls[self.val(dst)] = 'char*'; self.stack.add(dst); return
        if op == 'getelementptr':
            bm_ = re.match(R(r'getelementptr (?:inbounds )?(<T>), (<T>) (%[\w.]+)'), rhs)
            if bm_ and bm_.group(3) in self.stack: self.stack.add(dst)
            self.decls[self.val(dst)] = 'char*'
            self.code.append('  %s = %s;' % (self.val(dst), self.gep_expr(re.sub(r'^getelementptr (inbounds )?', '', rhs)))); return
        if op == 'extractvalue':
            mm = re.match(R(r'extractvalue (<T>) (.+?), (\d+)$'), rhs); ty, a, k = mm.groups()
            fs, _ = mod.fields(ty); mod.ctype(ty)
            self.setv(dst, fs[int(k)], '%s.f%s' % (self.val(a, ty), k), raw=True); return
        if op == 'insertvalue':
            mm = re.match(R(r'insertvalue (<T>) (.+?), (<T>) (.+?), (\d+)$'), rhs); ty, a, ety, v, k = mm.groups()
            self.decls[self.val(dst)] = mod.ctype(ty)
            self.code.append('  %s = %s; %s.f%s = %s;' % (self.val(dst), self.val(a, ty), self.val(dst), k, self.val(v, ety))); return
        if op == 'br':
            mm = re.match(r'br i1 (.+?), label %([\w.]+), label %([\w.]+)', rhs)
            if mm: self.code.append('  if (%s) %s else %s' % (self.val(mm.group(1)), self.edge(lbl, mm.group(2)), self.edge(lbl, mm.group(3))))
            else: self.code.append('  ' + self.edge(lbl, re.match(r'br label %([\w.]+)', rhs).group(1)))
            return
        if op == 'switch':
            mm = re.match(r'switch (\S+) (.+?), label %([\w.]+) \[(.*)\]', rhs); ty, v, dflt, rest = mm.groups()
            for cv, cl in re.findall(r'\S+ (-?\d+), label %([\w.]+)', rest):
                self.code.append('  if (%s == %s) %s' % (self.scast(ty, self.val(v)), self.scast(ty, self.val(cv)), self.edge(lbl, cl)))
            self.code.append('  ' + self.edge(lbl, dflt)); return
        if op == 'ret':
            mm = re.match(R(r'ret (<T>) ?(.*)$'), rhs)
            self.code.append('  return %s;' % (self.val(mm.group(2), mm.group(1)) if mm.group(1) != 'void' else '')); return
        if op == 'unreachable':
            self.code.append('  __CPROVER_assume(0); %s' % self.ret_default()); return
        if op == 'landingpad' or op == 'resume' or op == 'cleanup' or op == 'catch' or op == 'filter':
            if op == 'resume': self.code.append('  ir2c_threw = 1; %s' % self.ret_default())
            elif dst: self.decls[self.val(dst)] = self.mod.ctype('{ i8*, i32 }')
            return
        raise Unsupported('%s: %s' % (self.name, i))

def translate(text, entries, hook_funcs=(), nohook=()):
    mod = Module(text)
    if '*' in hook_funcs:
        class _All:
            def __contains__(self, f): return f not in nohook
        hook_funcs = _All()
    todo, done, bodies, protos = list(entries), set(), [], []
    sigs = {}
    while todo:
        f = todo.pop()
        if f in done: continue
        done.add(f)
        if f not in mod.funcs: raise Unsupported('entry %s not defined in the module' % f)
        ft = FuncTranslator(mod, f, signal_hook=f in hook_funcs)
        bodies.append(ft.translate()); protos.append(ft.proto()); sigs[f] = ft.sig()
        for c in ft.callees:
            if c in mod.funcs and c not in done: todo.append(c)
    out = ['/* generated by ir2c.py -- do not edit */', '#include "ir2c_rt.h"', 'void verif_maybe_signal(void);']
    for n, fs in mod.aggs.items():
        out.append('struct %s { %s };' % (n, ' '.join('%s f%d;' % (t, i) for i, t in enumerate(fs))))
    helper = FuncTranslator(mod, '<globals>')
    init_code, gdecl, gdone = [], [], set()
    def emit_const(ty, c, base, off):
        ty, c = ty.strip(), c.strip()
        if c in ('zeroinitializer', 'undef', 'poison', 'null', ''): return
        if ty.endswith('*') or ty == 'ptr' or re.search(r'\)\*+$', ty):
            if re.search(r'@_ZT[IS]', c): return          # RTTI is not modelled
            init_code.append('  *(char**)(%s + %d) = %s;' % (base, off, helper.val(c))); return
        if re.fullmatch(r'i\d+', ty):
            init_code.append('  *(%s*)(%s + %d) = %s;' % (mod.ctype(ty), base, off, helper.cast(ty, helper.val(c, ty)))); return
        if ty in ('float', 'double'):
            init_code.append('  *(%s*)(%s + %d) = %s;' % (ty, base, off, helper.val(c))); return
        am = re.fullmatch(r'\[(\d+) x (.*)\]', ty)
        if am:
            n, et = int(am.group(1)), am.group(2); es = mod.sizeof(et)
            if c.startswith('c"'):
                raw = c[2:c.rindex('"')]; i2 = 0; k = 0
                while i2 < len(raw):
                    if raw[i2] == '\\': b = int(raw[i2 + 1:i2 + 3], 16); i2 += 3
                    else: b = ord(raw[i2]); i2 += 1
                    if b: init_code.append('  *(unsigned char*)(%s + %d) = %d;' % (base, off + k, b))
                    k += 1
                return
            elems = split_top(c[1:-1])
            for k, e in enumerate(elems):
                em = re.match(R(r'(<T>) (.*)$'), e)
                emit_const(em.group(1), em.group(2), base, off + k * es)
            return
        if mod.is_struct(ty):
            fs, packed = mod.fields(ty)
            body = c.strip()
            body = body[2:-2] if body.startswith('<{') else body[1:-1]
            for k, e in enumerate(split_top(body)):
                em = re.match(R(r'(<T>) (.*)$'), e)
                fo, ft_ = mod.field_off(ty, k)
                emit_const(em.group(1), em.group(2), base, off + fo)
            return
        raise Unsupported('constant of type ' + ty)
    def do_globals():
        progress = False
        for g in sorted(mod.used_globals - gdone):
            gdone.add(g); progress = True
            init = mod.globals.get(g, '')
            gm = re.search(R(r'(?:global|constant) (<T>) ?(.*?)(?:, (?:comdat[^,]*|section "[^"]*"|align \d+))*$'), init)
            size = mod.sizeof(gm.group(1)) if gm else 8
            cg = 'g_' + re.sub(r'\W', '_', g)
            am = gm and re.fullmatch(r'\[(\d+) x (i\d+)\]', gm.group(1))
            if gm and re.fullmatch(r'i\d+|float|double', gm.group(1)) and re.fullmatch(r'-?[\d.e+-]+', gm.group(2) or ''):
                gdecl.append('%s %s = %s;' % (mod.ctype(gm.group(1)), cg, gm.group(2))); continue
            if am and gm.group(2).startswith('['):
                elems = re.findall(r'i\d+ (-?\d+)', gm.group(2))
                if len(elems) != int(am.group(1)): raise Unsupported('global initializer ' + g)
                gdecl.append('%s %s[%s] = { %s };' % (mod.ctype(am.group(2)), cg, am.group(1), ', '.join('(%s)%sL' % (mod.ctype(am.group(2)), e) for e in elems))); continue
            gdecl.append('char* %s[%d];  /* %s */' % (cg, max(1, (size + 7) // 8), init[:60].replace('*/', '')))
            if gm and not init.startswith('external'):
                emit_const(gm.group(1), gm.group(2) or '', '(char*)%s' % cg, 0)
        return progress
    while True:
        p1 = do_globals()
        p2 = False
        for c in list(helper.callees):
            if c in mod.funcs and c not in done:
                done.add(c); ft = FuncTranslator(mod, c, signal_hook=c in hook_funcs)
                bodies.append(ft.translate()); protos.append(ft.proto()); sigs[c] = ft.sig(); p2 = True
                todo = [x for x in ft.callees if x in mod.funcs and x not in done]
                while todo:
                    f = todo.pop()
                    if f in done: continue
                    done.add(f); ft2 = FuncTranslator(mod, f, signal_hook=f in hook_funcs)
                    bodies.append(ft2.translate()); protos.append(ft2.proto()); sigs[f] = ft2.sig()
                    todo += [x for x in ft2.callees if x in mod.funcs and x not in done]
        if not p1 and not p2: break
    out += gdecl
    for c in helper.callees:
        if c not in mod.funcs and c not in mod.externs: mod.externs[c] = ('void', [])
    for f, (rty, atys) in sorted(mod.externs.items()):
        if f in ('strlen', 'strerror', 'memcmp', 'strcmp', 'abort', 'memchr', 'malloc', 'free'): continue
        out.append('extern %s %s(%s);' % (mod.ctype(rty), cname(f), ', '.join(mod.ctype(t) for t in atys) or 'void'))
    for dn, (rt, ats) in sorted(mod.icalls.items()):
        protos.append('%s %s(%s);' % (rt, dn, ', '.join(['char*'] + list(ats))))
        cands = [f for f in sorted(mod.addr_taken) if f in sigs and sigs[f] == (rt, ats)]
        b = ['%s %s(%s) {' % (rt, dn, ', '.join(['char* fp'] + ['%s a%d' % (t, k) for k, t in enumerate(ats)]))]
        call = '(%s)' % ', '.join('a%d' % k for k in range(len(ats)))
        # nesting bound (reported if exceeded): keeps the symbolic execution from unrolling dispatcher recursion that cannot happen
        b.append('  static int depth_; if (depth_ >= 2) { __CPROVER_assert(0, "nesting bound of indirect calls"); __CPROVER_assume(0); }')
        for f in cands:
            if rt == 'void': b.append('  if (fp == (char*)&%s) { ++depth_; %s%s; --depth_; return; }' % (cname(f), cname(f), call))
            else: b.append('  if (fp == (char*)&%s) { ++depth_; %s r_ = %s%s; --depth_; return r_; }' % (cname(f), rt, cname(f), call))
        b.append('  __CPROVER_assert(0, "indirect call to an unknown function");')
        b.append('  %s' % ('return;' if rt == 'void' else 'return (%s)0;' % rt if not rt.startswith('struct') else '{ %s z_ = {0}; return z_; }' % rt))
        b.append('}')
        bodies.append('\n'.join(b))
    out += protos
    out += bodies
    out.append('void ir2c_init_globals(void) {'); out += init_code; out.append('}')
    return '\n'.join(out) + '\n'

if __name__ == '__main__':
    args = sys.argv[1:]
    entries, hooks, nohook = [], [], []
    path = args[0]
    i = 1
    while i < len(args):
        if args[i] == '--entry': entries = args[i + 1].split(','); i += 2
        elif args[i] == '--hook': hooks = args[i + 1].split(','); i += 2
        elif args[i] == '--nohook': nohook = args[i + 1].split(','); i += 2
        else: raise SystemExit('bad option ' + args[i])
    try:
        sys.stdout.write(translate(open(path).read(), entries, hooks, nohook))
    except Unsupported as e:
        sys.stderr.write('ir2c: UNSUPPORTED %s\n' % e)
        sys.exit(3)
