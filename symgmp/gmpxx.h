/* Engine S replacement for gmpxx.h: no expression templates; every operation
   goes through the dispatching C entry points of the shim gmp.h, so that a
   number is either a genuine GMP value or a tagged SMT term.  Only the public
   surface used by PPL (and by the harnesses) is provided.  */
#ifndef SYMGMP_GMPXX_H
#define SYMGMP_GMPXX_H
#include <gmp.h>
#include <iosfwd>
#include <string>
#include <limits>
#include <cstring>
#include <stdexcept>
#include <utility>
#include <type_traits>

class mpq_class;

class mpz_class {
  mpz_t mp;
public:
  mpz_class() { mpz_init(mp); }
  mpz_class(const mpz_class& z) { mpz_init_set(mp, z.mp); }
  mpz_class(mpz_class&& z) noexcept { *mp = *z.mp; z.mp->_mp_alloc = 0; z.mp->_mp_size = 0; z.mp->_mp_d = 0; symgmp_z_init(z.mp); }
  mpz_class(signed char c) { mpz_init_set_si(mp, c); }
  mpz_class(unsigned char c) { mpz_init_set_ui(mp, c); }
  mpz_class(char c) { mpz_init_set_si(mp, c); }
  mpz_class(signed short c) { mpz_init_set_si(mp, c); }
  mpz_class(unsigned short c) { mpz_init_set_ui(mp, c); }
  mpz_class(signed int c) { mpz_init_set_si(mp, c); }
  mpz_class(unsigned int c) { mpz_init_set_ui(mp, c); }
  mpz_class(signed long c) { mpz_init_set_si(mp, c); }
  mpz_class(unsigned long c) { mpz_init_set_ui(mp, c); }
  mpz_class(float d) { mpz_init_set_d(mp, d); }
  mpz_class(double d) { mpz_init_set_d(mp, d); }
  explicit mpz_class(mpz_srcptr z) { mpz_init_set(mp, z); }
  explicit mpz_class(const mpq_class& q);
  explicit mpz_class(const char* s, int base = 0) {
    if (mpz_init_set_str(mp, s, base) != 0) { mpz_clear(mp); throw std::invalid_argument("mpz_set_str"); }
  }
  explicit mpz_class(const std::string& s, int base = 0) : mpz_class(s.c_str(), base) {}
  ~mpz_class() { mpz_clear(mp); }
  mpz_class& operator=(const mpz_class& z) { mpz_set(mp, z.mp); return *this; }
  mpz_class& operator=(mpz_class&& z) noexcept { mpz_swap(mp, z.mp); return *this; }
  mpz_class& operator=(signed char c) { mpz_set_si(mp, c); return *this; }
  mpz_class& operator=(unsigned char c) { mpz_set_ui(mp, c); return *this; }
  mpz_class& operator=(char c) { mpz_set_si(mp, c); return *this; }
  mpz_class& operator=(signed short c) { mpz_set_si(mp, c); return *this; }
  mpz_class& operator=(unsigned short c) { mpz_set_ui(mp, c); return *this; }
  mpz_class& operator=(signed int c) { mpz_set_si(mp, c); return *this; }
  mpz_class& operator=(unsigned int c) { mpz_set_ui(mp, c); return *this; }
  mpz_class& operator=(signed long c) { mpz_set_si(mp, c); return *this; }
  mpz_class& operator=(unsigned long c) { mpz_set_ui(mp, c); return *this; }
  mpz_class& operator=(float d) { mpz_set_d(mp, d); return *this; }
  mpz_class& operator=(double d) { mpz_set_d(mp, d); return *this; }
  mpz_class& operator=(const mpq_class& q);
  mpz_class& operator=(const char* s) { if (mpz_set_str(mp, s, 0) != 0) throw std::invalid_argument("mpz_set_str"); return *this; }
  mpz_class& operator=(const std::string& s) { return *this = s.c_str(); }
  int set_str(const char* s, int base) { return mpz_set_str(mp, s, base); }
  int set_str(const std::string& s, int base) { return mpz_set_str(mp, s.c_str(), base); }
  std::string get_str(int base = 10) const {
    char* s = mpz_get_str(0, base, mp); std::string r(s);
    void (*freefunc)(void*, size_t); mp_get_memory_functions(0, 0, &freefunc);
    freefunc(s, std::strlen(s) + 1); return r;
  }
  void swap(mpz_class& z) noexcept { mpz_swap(mp, z.mp); }
  mpz_srcptr __get_mp() const { return mp; }
  mpz_ptr __get_mp() { return mp; }
  mpz_srcptr get_mpz_t() const { return mp; }
  mpz_ptr get_mpz_t() { return mp; }
  signed long get_si() const { return mpz_get_si(mp); }
  unsigned long get_ui() const { return mpz_get_ui(mp); }
  double get_d() const { return mpz_get_d(mp); }
  bool fits_sint_p() const { return mpz_fits_sint_p(mp); }
  bool fits_uint_p() const { return mpz_fits_uint_p(mp); }
  bool fits_sshort_p() const { return mpz_fits_sshort_p(mp); }
  bool fits_ushort_p() const { return mpz_fits_ushort_p(mp); }
  bool fits_slong_p() const { return mpz_fits_slong_p(mp); }
  bool fits_ulong_p() const { return mpz_fits_ulong_p(mp); }

#define SYMGMP_COMPOUND(OP, FN) \
  mpz_class& operator OP(const mpz_class& z) { FN(mp, mp, z.mp); return *this; } \
  template <typename T, typename = typename std::enable_if<std::is_integral<T>::value>::type> \
  mpz_class& operator OP(T l) { mpz_class t(l); FN(mp, mp, t.mp); return *this; }
  SYMGMP_COMPOUND(+=, mpz_add)
  SYMGMP_COMPOUND(-=, mpz_sub)
  SYMGMP_COMPOUND(*=, mpz_mul)
  SYMGMP_COMPOUND(/=, mpz_tdiv_q)
  SYMGMP_COMPOUND(%=, mpz_tdiv_r)
#undef SYMGMP_COMPOUND
  mpz_class& operator<<=(unsigned long l) { mpz_mul_2exp(mp, mp, l); return *this; }
  mpz_class& operator>>=(unsigned long l) { mpz_fdiv_q_2exp(mp, mp, l); return *this; }
  mpz_class& operator++() { return *this += 1L; }
  mpz_class& operator--() { return *this -= 1L; }
  mpz_class operator++(int) { mpz_class t(*this); ++*this; return t; }
  mpz_class operator--(int) { mpz_class t(*this); --*this; return t; }
  mpz_class operator-() const { mpz_class r; mpz_neg(r.mp, mp); return r; }
  const mpz_class& operator+() const { return *this; }
  explicit operator bool() const { return mpz_sgn(mp) != 0; }
};

#define SYMGMP_BINOP(OP, FN) \
  inline mpz_class operator OP(const mpz_class& a, const mpz_class& b) { mpz_class r; FN(r.get_mpz_t(), a.get_mpz_t(), b.get_mpz_t()); return r; } \
  template <typename T, typename = typename std::enable_if<std::is_integral<T>::value>::type> \
  inline mpz_class operator OP(const mpz_class& a, T b) { return a OP mpz_class(b); } \
  template <typename T, typename = typename std::enable_if<std::is_integral<T>::value>::type> \
  inline mpz_class operator OP(T a, const mpz_class& b) { return mpz_class(a) OP b; }
SYMGMP_BINOP(+, mpz_add)
SYMGMP_BINOP(-, mpz_sub)
SYMGMP_BINOP(*, mpz_mul)
SYMGMP_BINOP(/, mpz_tdiv_q)
SYMGMP_BINOP(%, mpz_tdiv_r)
#undef SYMGMP_BINOP
inline mpz_class operator<<(const mpz_class& a, unsigned long l) { mpz_class r; mpz_mul_2exp(r.get_mpz_t(), a.get_mpz_t(), l); return r; }
inline mpz_class operator>>(const mpz_class& a, unsigned long l) { mpz_class r; mpz_fdiv_q_2exp(r.get_mpz_t(), a.get_mpz_t(), l); return r; }

/* PPL defines its own non-template cmp(GMP_Integer,GMP_Integer) and
   swap(mpz_class&,mpz_class&): ours must be templates / absent.  */
template <typename T, typename = typename std::enable_if<std::is_same<T, mpz_class>::value>::type>
inline int cmp(const T& a, const mpz_class& b) { return mpz_cmp(a.get_mpz_t(), b.get_mpz_t()); }
template <typename T, typename = typename std::enable_if<std::is_integral<T>::value>::type>
inline int cmp(const mpz_class& a, T b) { return mpz_cmp(a.get_mpz_t(), mpz_class(b).get_mpz_t()); }
template <typename T, typename = typename std::enable_if<std::is_integral<T>::value>::type>
inline int cmp(T a, const mpz_class& b) { return mpz_cmp(mpz_class(a).get_mpz_t(), b.get_mpz_t()); }
inline int sgn(const mpz_class& a) { return mpz_sgn(a.get_mpz_t()); }
inline mpz_class abs(const mpz_class& a) { mpz_class r; mpz_abs(r.get_mpz_t(), a.get_mpz_t()); return r; }
inline mpz_class sqrt(const mpz_class& a) { mpz_class r; mpz_sqrt(r.get_mpz_t(), a.get_mpz_t()); return r; }

/* Relational operators: one symbolic branch each.  */
#define SYMGMP_REL(OP, EXPR) \
  inline bool operator OP(const mpz_class& a, const mpz_class& b) { mpz_srcptr x = a.get_mpz_t(), y = b.get_mpz_t(); return EXPR; } \
  template <typename T, typename = typename std::enable_if<std::is_arithmetic<T>::value>::type> \
  inline bool operator OP(const mpz_class& a, T b) { return a OP mpz_class(b); } \
  template <typename T, typename = typename std::enable_if<std::is_arithmetic<T>::value>::type> \
  inline bool operator OP(T a, const mpz_class& b) { return mpz_class(a) OP b; }
SYMGMP_REL(==, symgmp_z_rel(x, y, 0) != 0)
SYMGMP_REL(!=, symgmp_z_rel(x, y, 0) == 0)
SYMGMP_REL(<,  symgmp_z_rel(x, y, 1) != 0)
SYMGMP_REL(<=, symgmp_z_rel(x, y, 2) != 0)
SYMGMP_REL(>,  symgmp_z_rel(y, x, 1) != 0)
SYMGMP_REL(>=, symgmp_z_rel(y, x, 2) != 0)
#undef SYMGMP_REL

std::ostream& operator<<(std::ostream&, const mpz_class&);
std::istream& operator>>(std::istream&, mpz_class&);

/**************** mpq_class: pair of (possibly symbolic) integers ****************/
class mpq_class {
  mpq_t mp;
public:
  mpq_class() { mpq_init(mp); }
  mpq_class(const mpq_class& q) { mpq_init(mp); mpq_set(mp, q.mp); }
  mpq_class(mpq_class&& q) noexcept { mpq_init(mp); mpq_swap(mp, q.mp); }
  mpq_class(const mpz_class& z) { mpq_init(mp); mpq_set_z(mp, z.get_mpz_t()); }
  mpq_class(const mpz_class& n, const mpz_class& d) { mpq_init(mp); mpz_set(mpq_numref(mp), n.get_mpz_t()); mpz_set(mpq_denref(mp), d.get_mpz_t()); }
  template <typename T, typename = typename std::enable_if<std::is_integral<T>::value>::type>
  mpq_class(T c) { mpq_init(mp); mpz_class z(c); mpq_set_z(mp, z.get_mpz_t()); }
  mpq_class(float d) { mpq_init(mp); mpq_set_d(mp, d); }
  mpq_class(double d) { mpq_init(mp); mpq_set_d(mp, d); }
  explicit mpq_class(const char* s, int base = 0) { mpq_init(mp); if (mpq_set_str(mp, s, base) != 0) { mpq_clear(mp); throw std::invalid_argument("mpq_set_str"); } }
  explicit mpq_class(const std::string& s, int base = 0) : mpq_class(s.c_str(), base) {}
  explicit mpq_class(mpq_srcptr q) { mpq_init(mp); mpq_set(mp, q); }
  ~mpq_class() { mpq_clear(mp); }
  mpq_class& operator=(const mpq_class& q) { mpq_set(mp, q.mp); return *this; }
  mpq_class& operator=(mpq_class&& q) noexcept { mpq_swap(mp, q.mp); return *this; }
  mpq_class& operator=(const mpz_class& z) { mpq_set_z(mp, z.get_mpz_t()); return *this; }
  template <typename T, typename = typename std::enable_if<std::is_integral<T>::value>::type>
  mpq_class& operator=(T c) { mpz_class z(c); mpq_set_z(mp, z.get_mpz_t()); return *this; }
  mpq_class& operator=(float d) { mpq_set_d(mp, d); return *this; }
  mpq_class& operator=(double d) { mpq_set_d(mp, d); return *this; }
  int set_str(const char* s, int base) { return mpq_set_str(mp, s, base); }
  int set_str(const std::string& s, int base) { return mpq_set_str(mp, s.c_str(), base); }
  std::string get_str(int base = 10) const {
    char* s = mpq_get_str(0, base, mp); std::string r(s);
    void (*freefunc)(void*, size_t); mp_get_memory_functions(0, 0, &freefunc);
    freefunc(s, std::strlen(s) + 1); return r;
  }
  void swap(mpq_class& q) noexcept { mpq_swap(mp, q.mp); }
  void canonicalize() { mpq_canonicalize(mp); }
  const mpz_class& get_num() const { return reinterpret_cast<const mpz_class&>(*mpq_numref(mp)); }
  mpz_class& get_num() { return reinterpret_cast<mpz_class&>(*mpq_numref(mp)); }
  const mpz_class& get_den() const { return reinterpret_cast<const mpz_class&>(*mpq_denref(mp)); }
  mpz_class& get_den() { return reinterpret_cast<mpz_class&>(*mpq_denref(mp)); }
  mpz_ptr get_num_mpz_t() { return mpq_numref(mp); }
  mpz_srcptr get_num_mpz_t() const { return mpq_numref(mp); }
  mpz_ptr get_den_mpz_t() { return mpq_denref(mp); }
  mpz_srcptr get_den_mpz_t() const { return mpq_denref(mp); }
  mpq_srcptr __get_mp() const { return mp; }
  mpq_ptr __get_mp() { return mp; }
  mpq_srcptr get_mpq_t() const { return mp; }
  mpq_ptr get_mpq_t() { return mp; }
  double get_d() const { return mpq_get_d(mp); }
#define SYMGMP_QCOMPOUND(OP, FN) \
  mpq_class& operator OP(const mpq_class& q) { FN(mp, mp, q.mp); return *this; } \
  template <typename T, typename = typename std::enable_if<std::is_arithmetic<T>::value || std::is_same<T, mpz_class>::value>::type> \
  mpq_class& operator OP(const T& c) { mpq_class q(c); FN(mp, mp, q.mp); return *this; }
  SYMGMP_QCOMPOUND(+=, mpq_add)
  SYMGMP_QCOMPOUND(-=, mpq_sub)
  SYMGMP_QCOMPOUND(*=, mpq_mul)
  SYMGMP_QCOMPOUND(/=, mpq_div)
#undef SYMGMP_QCOMPOUND
  mpq_class& operator<<=(unsigned long l) { mpq_mul_2exp(mp, mp, l); return *this; }
  mpq_class& operator>>=(unsigned long l) { mpq_div_2exp(mp, mp, l); return *this; }
  mpq_class operator-() const { mpq_class r; mpq_neg(r.mp, mp); return r; }
  const mpq_class& operator+() const { return *this; }
  mpq_class& operator++() { mpz_add(mpq_numref(mp), mpq_numref(mp), mpq_denref(mp)); return *this; }
  mpq_class& operator--() { mpz_sub(mpq_numref(mp), mpq_numref(mp), mpq_denref(mp)); return *this; }
  explicit operator bool() const { return mpq_sgn(mp) != 0; }
};
inline mpz_class::mpz_class(const mpq_class& q) { mpz_init(mp); mpz_tdiv_q(mp, q.get_num_mpz_t(), q.get_den_mpz_t()); }
inline mpz_class& mpz_class::operator=(const mpq_class& q) { mpz_tdiv_q(mp, q.get_num_mpz_t(), q.get_den_mpz_t()); return *this; }

#define SYMGMP_QBINOP(OP, FN) \
  inline mpq_class operator OP(const mpq_class& a, const mpq_class& b) { mpq_class r; FN(r.get_mpq_t(), a.get_mpq_t(), b.get_mpq_t()); return r; } \
  template <typename T, typename = typename std::enable_if<std::is_arithmetic<T>::value || std::is_same<T, mpz_class>::value>::type> \
  inline mpq_class operator OP(const mpq_class& a, const T& b) { return a OP mpq_class(b); } \
  template <typename T, typename = typename std::enable_if<std::is_arithmetic<T>::value || std::is_same<T, mpz_class>::value>::type> \
  inline mpq_class operator OP(const T& a, const mpq_class& b) { return mpq_class(a) OP b; }
SYMGMP_QBINOP(+, mpq_add)
SYMGMP_QBINOP(-, mpq_sub)
SYMGMP_QBINOP(*, mpq_mul)
SYMGMP_QBINOP(/, mpq_div)
#undef SYMGMP_QBINOP
inline mpq_class operator<<(const mpq_class& a, unsigned long l) { mpq_class r; mpq_mul_2exp(r.get_mpq_t(), a.get_mpq_t(), l); return r; }
inline mpq_class operator>>(const mpq_class& a, unsigned long l) { mpq_class r; mpq_div_2exp(r.get_mpq_t(), a.get_mpq_t(), l); return r; }
template <typename T, typename = typename std::enable_if<std::is_same<T, mpq_class>::value>::type>
inline int cmp(const T& a, const mpq_class& b) { return mpq_cmp(a.get_mpq_t(), b.get_mpq_t()); }
inline int sgn(const mpq_class& a) { return mpq_sgn(a.get_mpq_t()); }
inline mpq_class abs(const mpq_class& a) { mpq_class r; mpq_abs(r.get_mpq_t(), a.get_mpq_t()); return r; }
#define SYMGMP_QREL(OP, EXPR) \
  inline bool operator OP(const mpq_class& a, const mpq_class& b) { mpq_srcptr x = a.get_mpq_t(), y = b.get_mpq_t(); return EXPR; } \
  template <typename T, typename = typename std::enable_if<std::is_arithmetic<T>::value || std::is_same<T, mpz_class>::value>::type> \
  inline bool operator OP(const mpq_class& a, const T& b) { return a OP mpq_class(b); } \
  template <typename T, typename = typename std::enable_if<std::is_arithmetic<T>::value || std::is_same<T, mpz_class>::value>::type> \
  inline bool operator OP(const T& a, const mpq_class& b) { return mpq_class(a) OP b; }
SYMGMP_QREL(==, symgmp_q_rel(x, y, 0) != 0)
SYMGMP_QREL(!=, symgmp_q_rel(x, y, 0) == 0)
SYMGMP_QREL(<,  symgmp_q_rel(x, y, 1) != 0)
SYMGMP_QREL(<=, symgmp_q_rel(x, y, 2) != 0)
SYMGMP_QREL(>,  symgmp_q_rel(y, x, 1) != 0)
SYMGMP_QREL(>=, symgmp_q_rel(y, x, 2) != 0)
#undef SYMGMP_QREL
std::ostream& operator<<(std::ostream&, const mpq_class&);
std::istream& operator>>(std::istream&, mpq_class&);

namespace std {
#define SYMGMP_LIMITS(T, ISINT) \
template <> class numeric_limits<T> { \
public: \
  static const bool is_specialized = true; \
  static T min() { return T(); } \
  static T max() { return T(); } \
  static T lowest() { return T(); } \
  static const int digits = 0; static const int digits10 = 0; static const int max_digits10 = 0; \
  static const bool is_signed = true; static const bool is_integer = ISINT; static const bool is_exact = true; \
  static const int radix = 2; \
  static T epsilon() { return T(); } \
  static T round_error() { return T(); } \
  static const int min_exponent = 0, min_exponent10 = 0, max_exponent = 0, max_exponent10 = 0; \
  static const bool has_infinity = false, has_quiet_NaN = false, has_signaling_NaN = false; \
  static const float_denorm_style has_denorm = denorm_absent; \
  static const bool has_denorm_loss = false; \
  static T infinity() { return T(); } \
  static T quiet_NaN() { return T(); } \
  static T signaling_NaN() { return T(); } \
  static T denorm_min() { return T(); } \
  static const bool is_iec559 = false, is_bounded = false, is_modulo = false, traps = false, tinyness_before = false; \
  static const float_round_style round_style = round_toward_zero; \
};
SYMGMP_LIMITS(mpz_class, true)
SYMGMP_LIMITS(mpq_class, false)
#undef SYMGMP_LIMITS
}
#endif
