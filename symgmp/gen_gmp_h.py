#!/usr/bin/env python3
"""Generate symgmp/gmp.h: real GMP declarations (include_next), then every
mpz_*/mpq_* macro name of the real header is re-pointed either to a modelled
dispatching function symgmp_*, left alone (pure-concrete limb/bit functions
that PPL only applies to Bit_Row storage), or poisoned (any new use in PPL is
a compile error, never a silent pass-through)."""
import re, sys
real = open('/usr/include/x86_64-linux-gnu/gmp.h').read()
names = sorted(set(re.findall(r'^#define ((?:mpz|mpq)_[a-z0-9_]+)', real, re.M)))
# name -> C prototype of the model
Z = {
 'mpz_init': 'void F(mpz_ptr)',
 'mpz_init2': 'void F(mpz_ptr, mp_bitcnt_t)',
 'mpz_clear': 'void F(mpz_ptr)',
 'mpz_set': 'void F(mpz_ptr, mpz_srcptr)',
 'mpz_init_set': 'void F(mpz_ptr, mpz_srcptr)',
 'mpz_set_si': 'void F(mpz_ptr, long)',
 'mpz_set_ui': 'void F(mpz_ptr, unsigned long)',
 'mpz_set_d': 'void F(mpz_ptr, double)',
 'mpz_set_str': 'int F(mpz_ptr, const char*, int)',
 'mpz_init_set_si': 'void F(mpz_ptr, long)',
 'mpz_init_set_ui': 'void F(mpz_ptr, unsigned long)',
 'mpz_init_set_d': 'void F(mpz_ptr, double)',
 'mpz_init_set_str': 'int F(mpz_ptr, const char*, int)',
 'mpz_swap': 'void F(mpz_ptr, mpz_ptr)',
 'mpz_add': 'void F(mpz_ptr, mpz_srcptr, mpz_srcptr)',
 'mpz_sub': 'void F(mpz_ptr, mpz_srcptr, mpz_srcptr)',
 'mpz_mul': 'void F(mpz_ptr, mpz_srcptr, mpz_srcptr)',
 'mpz_add_ui': 'void F(mpz_ptr, mpz_srcptr, unsigned long)',
 'mpz_sub_ui': 'void F(mpz_ptr, mpz_srcptr, unsigned long)',
 'mpz_mul_si': 'void F(mpz_ptr, mpz_srcptr, long)',
 'mpz_mul_ui': 'void F(mpz_ptr, mpz_srcptr, unsigned long)',
 'mpz_addmul': 'void F(mpz_ptr, mpz_srcptr, mpz_srcptr)',
 'mpz_submul': 'void F(mpz_ptr, mpz_srcptr, mpz_srcptr)',
 'mpz_neg': 'void F(mpz_ptr, mpz_srcptr)',
 'mpz_abs': 'void F(mpz_ptr, mpz_srcptr)',
 'mpz_gcd': 'void F(mpz_ptr, mpz_srcptr, mpz_srcptr)',
 'mpz_lcm': 'void F(mpz_ptr, mpz_srcptr, mpz_srcptr)',
 'mpz_gcdext': 'void F(mpz_ptr, mpz_ptr, mpz_ptr, mpz_srcptr, mpz_srcptr)',
 'mpz_divexact': 'void F(mpz_ptr, mpz_srcptr, mpz_srcptr)',
 'mpz_tdiv_q': 'void F(mpz_ptr, mpz_srcptr, mpz_srcptr)',
 'mpz_tdiv_r': 'void F(mpz_ptr, mpz_srcptr, mpz_srcptr)',
 'mpz_tdiv_qr': 'void F(mpz_ptr, mpz_ptr, mpz_srcptr, mpz_srcptr)',
 'mpz_fdiv_q': 'void F(mpz_ptr, mpz_srcptr, mpz_srcptr)',
 'mpz_fdiv_r': 'void F(mpz_ptr, mpz_srcptr, mpz_srcptr)',
 'mpz_fdiv_qr': 'void F(mpz_ptr, mpz_ptr, mpz_srcptr, mpz_srcptr)',
 'mpz_cdiv_q': 'void F(mpz_ptr, mpz_srcptr, mpz_srcptr)',
 'mpz_cdiv_r': 'void F(mpz_ptr, mpz_srcptr, mpz_srcptr)',
 'mpz_cdiv_qr': 'void F(mpz_ptr, mpz_ptr, mpz_srcptr, mpz_srcptr)',
 'mpz_divisible_p': 'int F(mpz_srcptr, mpz_srcptr)',
 'mpz_mul_2exp': 'void F(mpz_ptr, mpz_srcptr, mp_bitcnt_t)',
 'mpz_tdiv_q_2exp': 'void F(mpz_ptr, mpz_srcptr, mp_bitcnt_t)',
 'mpz_fdiv_q_2exp': 'void F(mpz_ptr, mpz_srcptr, mp_bitcnt_t)',
 'mpz_cdiv_q_2exp': 'void F(mpz_ptr, mpz_srcptr, mp_bitcnt_t)',
 'mpz_tdiv_r_2exp': 'void F(mpz_ptr, mpz_srcptr, mp_bitcnt_t)',
 'mpz_fdiv_r_2exp': 'void F(mpz_ptr, mpz_srcptr, mp_bitcnt_t)',
 'mpz_cdiv_r_2exp': 'void F(mpz_ptr, mpz_srcptr, mp_bitcnt_t)',
 'mpz_divisible_2exp_p': 'int F(mpz_srcptr, mp_bitcnt_t)',
 'mpz_sqrt': 'void F(mpz_ptr, mpz_srcptr)',
 'mpz_sqrtrem': 'void F(mpz_ptr, mpz_ptr, mpz_srcptr)',
 'mpz_cmp': 'int F(mpz_srcptr, mpz_srcptr)',
 'mpz_cmp_si': 'int F(mpz_srcptr, long)',
 'mpz_cmp_ui': 'int F(mpz_srcptr, unsigned long)',
 'mpz_cmpabs': 'int F(mpz_srcptr, mpz_srcptr)',
 'mpz_sgn': 'int F(mpz_srcptr)',
 'mpz_odd_p': 'int F(mpz_srcptr)',
 'mpz_even_p': 'int F(mpz_srcptr)',
 'mpz_get_si': 'long F(mpz_srcptr)',
 'mpz_get_ui': 'unsigned long F(mpz_srcptr)',
 'mpz_get_d': 'double F(mpz_srcptr)',
 'mpz_get_str': 'char* F(char*, int, mpz_srcptr)',
 'mpz_fits_slong_p': 'int F(mpz_srcptr)',
 'mpz_fits_ulong_p': 'int F(mpz_srcptr)',
 'mpz_fits_sint_p': 'int F(mpz_srcptr)',
 'mpz_fits_uint_p': 'int F(mpz_srcptr)',
 'mpz_fits_sshort_p': 'int F(mpz_srcptr)',
 'mpz_fits_ushort_p': 'int F(mpz_srcptr)',
 'mpz_sizeinbase': 'size_t F(mpz_srcptr, int)',
 'mpz_size': 'size_t F(mpz_srcptr)',
 'mpz_tstbit': 'int F(mpz_srcptr, mp_bitcnt_t)',
 'mpz_export': 'void* F(void*, size_t*, int, size_t, int, size_t, mpz_srcptr)',
 'mpz_import': 'void F(mpz_ptr, size_t, int, size_t, int, size_t, const void*)',
 'mpz_ui_pow_ui': 'void F(mpz_ptr, unsigned long, unsigned long)',
 'mpz_pow_ui': 'void F(mpz_ptr, mpz_srcptr, unsigned long)',
 # bit-level functions (Bit_Row storage): operands are concrete, but the DESTINATION may be a dirty temporary
 # that still carries a symbolic tag from an earlier use
 'mpz_com': 'void F(mpz_ptr, mpz_srcptr)',
 'mpz_and': 'void F(mpz_ptr, mpz_srcptr, mpz_srcptr)',
 'mpz_ior': 'void F(mpz_ptr, mpz_srcptr, mpz_srcptr)',
 'mpz_xor': 'void F(mpz_ptr, mpz_srcptr, mpz_srcptr)',
 'mpz_setbit': 'void F(mpz_ptr, mp_bitcnt_t)',
 'mpz_clrbit': 'void F(mpz_ptr, mp_bitcnt_t)',
 'mpz_combit': 'void F(mpz_ptr, mp_bitcnt_t)',
 'mpz_realloc2': 'void F(mpz_ptr, mp_bitcnt_t)',
 # rationals: pairs of (possibly symbolic) integers
 'mpq_init': 'void F(mpq_ptr)',
 'mpq_clear': 'void F(mpq_ptr)',
 'mpq_set': 'void F(mpq_ptr, mpq_srcptr)',
 'mpq_set_z': 'void F(mpq_ptr, mpz_srcptr)',
 'mpq_set_si': 'void F(mpq_ptr, long, unsigned long)',
 'mpq_set_ui': 'void F(mpq_ptr, unsigned long, unsigned long)',
 'mpq_set_d': 'void F(mpq_ptr, double)',
 'mpq_set_str': 'int F(mpq_ptr, const char*, int)',
 'mpq_swap': 'void F(mpq_ptr, mpq_ptr)',
 'mpq_canonicalize': 'void F(mpq_ptr)',
 'mpq_add': 'void F(mpq_ptr, mpq_srcptr, mpq_srcptr)',
 'mpq_sub': 'void F(mpq_ptr, mpq_srcptr, mpq_srcptr)',
 'mpq_mul': 'void F(mpq_ptr, mpq_srcptr, mpq_srcptr)',
 'mpq_div': 'void F(mpq_ptr, mpq_srcptr, mpq_srcptr)',
 'mpq_neg': 'void F(mpq_ptr, mpq_srcptr)',
 'mpq_abs': 'void F(mpq_ptr, mpq_srcptr)',
 'mpq_inv': 'void F(mpq_ptr, mpq_srcptr)',
 'mpq_mul_2exp': 'void F(mpq_ptr, mpq_srcptr, mp_bitcnt_t)',
 'mpq_div_2exp': 'void F(mpq_ptr, mpq_srcptr, mp_bitcnt_t)',
 'mpq_cmp': 'int F(mpq_srcptr, mpq_srcptr)',
 'mpq_cmp_si': 'int F(mpq_srcptr, long, unsigned long)',
 'mpq_cmp_ui': 'int F(mpq_srcptr, unsigned long, unsigned long)',
 'mpq_equal': 'int F(mpq_srcptr, mpq_srcptr)',
 'mpq_sgn': 'int F(mpq_srcptr)',
 'mpq_get_d': 'double F(mpq_srcptr)',
 'mpq_get_str': 'char* F(char*, int, mpq_srcptr)',
 'mpq_get_num': 'void F(mpz_ptr, mpq_srcptr)',
 'mpq_get_den': 'void F(mpz_ptr, mpq_srcptr)',
 'mpq_set_num': 'void F(mpq_ptr, mpz_srcptr)',
 'mpq_set_den': 'void F(mpq_ptr, mpz_srcptr)',
}
KEEP = {'mpz_scan0','mpz_scan1',
        'mpz_realloc','mpz_getlimbn','mpz_popcount','mpz_hamdist','mpq_numref','mpq_denref',
        'mpz_limbs_read','mpz_limbs_write','mpz_limbs_modify','mpz_limbs_finish','mpz_roinit_n'}
out = ['/* GENERATED by gen_gmp_h.py -- do not edit.  Shim gmp.h for Engine S. */',
       '#ifndef SYMGMP_GMP_H', '#define SYMGMP_GMP_H', '#include_next <gmp.h>',
       '#ifdef __cplusplus', 'extern "C" {', '#endif',
       '#define SYMGMP_TAG (-21555)',
       'static inline int symgmp_is_sym(mpz_srcptr z) { return z->_mp_alloc == SYMGMP_TAG; }',
       '/* op: 0 ==, 1 <, 2 <= : one symbolic branch */',
       'int symgmp_z_rel(mpz_srcptr a, mpz_srcptr b, int op);',
       'int symgmp_q_rel(mpq_srcptr a, mpq_srcptr b, int op);']
for n, proto in sorted(Z.items()):
    out.append(proto.replace('F(', 'symgmp_' + n[2:] + '(', 1).replace('symgmp_z_', 'symgmp_z_').replace('symgmp_q_','symgmp_q_') + ';')
out += ['#ifdef __cplusplus', '}', '#endif']
for n in names:
    if n in KEEP: continue
    out.append('#undef ' + n)
    if n in Z: out.append('#define %s symgmp_%s' % (n, n[2:]))
    else: out.append('#define %s symgmp_UNMODELLED_%s' % (n, n))
for n in Z:
    if n not in names: sys.exit('model for unknown name ' + n)
out.append('#endif')
open(sys.argv[1], 'w').write('\n'.join(out) + '\n')
