"""Helpers usable inside the `when=` predicates of known_findings.txt."""


def pip_rows(i, p):
    """Decode the forked data of the C07 harness: list of (variable coeffs, parameter coeffs, b, is_equality)."""
    nv, np_, m, B, Bb = p['nv'] or 1, p['np'] or 1, p['m'] or 2, p['B'] or 1, p['Bb'] if p['Bb'] else 2
    rows = []
    for r in range(m):
        a = [i['sel_a%d_%d' % (r, j)] - B for j in range(nv + np_)]
        rows.append((a[:nv], a[nv:], i['sel_b%d' % r] - Bb, i['sel_k%d' % r] == 1))
    return rows


def pip_has_equality(i, p):
    return any(r[3] for r in pip_rows(i, p))


def pip_incremental(i, p):
    return bool(p['incremental']) and i['sel_first'] < (p['m'] or 2)


def pip_forces_zero(i, p):
    """Some inequality -x_j + (non-positive parameter part) + b >= 0 with b <= 0 forces a variable to its lower bound 0
    for some parameter values (degenerate vertex of the non-negative orthant)."""
    for av, ap, b, eq in pip_rows(i, p):
        if not eq and b <= 0 and all(c <= 0 for c in av) and any(c < 0 for c in av) and all(c <= 0 for c in ap):
            return True
    return False
