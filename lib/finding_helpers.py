"""Helpers usable inside the `when=` predicates of known_findings.txt."""


def pip_rows(i, p):
    """Decode the forked data of the C07 harness: list of (variable coeffs, parameter coeffs, b, is_equality)."""
    nv, np_, m, B, Bb = p['nv'] or 1, p['np'] or 1, p['m'] or 2, p['B'] or 1, p['Bb'] if p['Bb'] else 2
    rows = []
    for r in range(m):
        a = [i['sel_a%d_%d' % (r, j)] - B for j in range(nv + np_)]
        rows.append((a[:nv], a[nv:], i['sel_b%d' % r] - Bb, i['sel_k%d' % r] == 1))
    return rows


def pip_has_equality(i, p):
    return any(r[3] for r in pip_rows(i, p))


def pip_incremental(i, p):
    return bool(p['incremental']) and i['sel_first'] < (p['m'] or 2)


def pip_forces_zero(i, p):
    """Some inequality -x_j + (non-positive parameter part) + b >= 0 with b <= 0 forces a variable to its lower bound 0
    for some parameter values (degenerate vertex of the non-negative orthant)."""
    for av, ap, b, eq in pip_rows(i, p):
        if not eq and b <= 0 and all(c <= 0 for c in av) and any(c < 0 for c in av) and all(c <= 0 for c in ap):
            return True
    return False


def _indefinite(c0, cs):
    """c0 + sum cs[k]*p_k takes both signs over p >= 0."""
    return (c0 < 0 and any(c > 0 for c in cs)) or (c0 > 0 and any(c < 0 for c in cs)) or (any(c > 0 for c in cs) and any(c < 0 for c in cs))


def pip_first_tree_splits(i, p):
    """The constraints solved before the incremental addition give a tree with a decision node: some row's parametric
    part changes sign over the parameters, or two rows bounding the same variable from below compare differently
    for different parameter values."""
    rows = [r for r in pip_rows(i, p)[:i['sel_first']] if any(r[0])]
    for av, ap, b, eq in rows:
        if _indefinite(b, ap):
            return True
    for x in range(len(rows)):
        for y in range(x + 1, len(rows)):
            (a1, p1, b1, _), (a2, p2, b2, _) = rows[x], rows[y]
            for j in range(len(a1)):
                if a1[j] > 0 and a2[j] > 0 and _indefinite(b2 * a1[j] - b1 * a2[j], [c2 * a1[j] - c1 * a2[j] for c1, c2 in zip(p1, p2)]):
                    return True
    return False


def suc_context_line_meets_in_point(i, p):
    """C02 op 16, n = 2: the context is a line (one equality) and the receiver's half-planes cut it down to a single
    point (the meet has a lower dimension than the context)."""
    from fractions import Fraction as F
    if (p['n'] or 2) != 2 or i['sel_q0kind'] != 1:
        return False
    a0, a1, b = i['q0a0'], i['q0a1'], i['q0b']
    if a0 == 0 and a1 == 0:
        return False
    # base point and direction of the line a.x + b = 0
    if a0 != 0: base = (F(-b, a0), F(0))
    else: base = (F(0), F(-b, a1))
    d = (F(-a1), F(a0))
    lo, hi = None, None
    for r in range(p['m'] or 1):
        c0, c1, cb, kind = i['p%da0' % r], i['p%da1' % r], i['p%db' % r], i['sel_p%dkind' % r]
        s = c0 * d[0] + c1 * d[1]; k = c0 * base[0] + c1 * base[1] + cb      # s t + k (>=, ==) 0
        if s == 0:
            if (kind == 1 and k != 0) or (kind != 1 and k < 0): return False    # empty meet
            continue
        t = -k / s
        if kind == 1: lo = t if lo is None or t > lo else lo; hi = t if hi is None or t < hi else hi
        elif s > 0: lo = t if lo is None or t > lo else lo
        else: hi = t if hi is None or t < hi else hi
    return lo is not None and hi is not None and lo == hi
