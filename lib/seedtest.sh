#!/bin/bash
# usage: lib/seedtest.sh <seed-id> <property> [tier] [extra check args]
# Applies seeded/<seed-id>/patch.diff to /repo, runs the property's check, and always restores /repo.
id=$1; prop=$2; tier=${3:-quick}; shift 3
cd /verif
if ! git -C /repo diff --quiet; then echo "REFUSING: /repo has uncommitted changes"; exit 2; fi
git -C /repo apply /verif/seeded/$id/patch.diff || { echo "patch does not apply"; exit 2; }
./check $prop --tier $tier "$@" > /tmp/seedtest_${id}_${prop}.log 2>&1; rc=$?
git -C /repo checkout -- .
echo "seed=$id property=$prop tier=$tier exit=$rc"
grep -E "^VIOLATION|^  harness|^KNOWN|^\[check\]|ENGINE-MISMATCH" /tmp/seedtest_${id}_${prop}.log | cut -c1-260 | head -12
# the evidence file now describes the seeded tree: restore the committed one
git -C /verif checkout -- evidence/$prop.json 2>/dev/null
exit $rc
