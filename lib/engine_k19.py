"""Engine K driver for C19 (watchdogs): real Watchdog / Threshold_Watcher code -> clang LLVM IR -> ir2c -> CBMC.

The history shape (which of create / destroy / let-time-pass happens at each step) is a parameter of a
run; delays, clock advances (and, in the instrumented variant, the instruction at which the timer
signal arrives) are nondeterministic and decided by the SAT back end.  Every shape has a -DWITNESS twin
that must fail; the translation is validated against the g++ build of the same wrappers on random
concrete histories on every run; counterexamples are replayed against that g++ build."""
import os, sys, json, subprocess, time, re, hashlib, shutil, random, itertools
from concurrent.futures import ThreadPoolExecutor
VERIF = os.path.dirname(os.path.dirname(os.path.abspath(__file__)))
REPO = os.environ.get('VERIF_REPO', '/repo')
sys.path.insert(0, os.path.join(VERIF, 'lib'))
import engine_k

CLANG = ['clang++-14', '-std=c++11', '-O1', '-fno-vectorize', '-fno-slp-vectorize', '-fno-unroll-loops', '-frounding-math', '-fno-access-control',
         '-DHAVE_CONFIG_H', '-DNDEBUG=1', '-w', '-I' + REPO, '-I' + os.path.join(REPO, 'src'), '-S', '-emit-llvm']
WD_ENTRIES = ['k_static_init', 'k_wd_initialize', 'k_wd_create', 'k_wd_destroy', 'k_wd_signal', 'k_wd_clock_running', 'k_wd_pending_empty']
WW_ENTRIES = ['k_static_init', 'k_ww_create', 'k_ww_destroy', 'k_ww_add_weight', 'k_ww_weight', 'k_ww_check']
NOHOOK = ['k_wd_signal', 'PPL_handle_timeout', '_ZN23Parma_Polyhedra_Library8Watchdog14handle_timeoutEi', 'k_static_init', 'k_wd_initialize',
          '_ZN23Parma_Polyhedra_Library8Watchdog10initializeEv', 'k_wd_clock_running', 'k_wd_pending_empty']
CBMC = ['--unwinding-assertions', '--drop-unused-functions', '--no-standard-checks', '--pointer-check', '--bounds-check', '--sat-solver', 'cadical']


def sh(cmd, **kw):
    return subprocess.run(cmd, stdout=subprocess.PIPE, stderr=subprocess.STDOUT, text=True, **kw)


def scripts(length, nw):
    """All histories of `length` events that start with a creation: (kinds, args)."""
    out = []
    def rec(kinds, args, created, dead):
        if len(kinds) == length:
            out.append((tuple(kinds), tuple(args))); return
        if created < nw: rec(kinds + [0], args + [0], created + 1, dead)
        for i in range(created):
            if i not in dead: rec(kinds + [1], args + [i], created, dead | {i})
        if created > 0: rec(kinds + [2], args + [0], created, dead)
    rec([0], [0], 1, frozenset())
    return out


def cbmc_run(files, fn, defines, unwind, cap, paths=False):
    cmd = ['cbmc'] + files + ['-I' + os.path.join(VERIF, 'ir2c'), '--function', fn, '--unwind', str(unwind)] + CBMC + ['-D' + d for d in defines] + ['--trace']
    if paths: cmd += ['--paths', 'lifo']
    t0 = time.time()
    try:
        def limit():      # a run that needs more than 10 GB fails by itself (reported as not covered) instead of waking the OOM killer
            import resource
            resource.setrlimit(resource.RLIMIT_AS, (10 << 30, 10 << 30))
        p = subprocess.run(cmd, stdout=subprocess.PIPE, stderr=subprocess.STDOUT, text=True, timeout=cap, preexec_fn=limit)
        out = p.stdout
    except subprocess.TimeoutExpired as e:
        return 'unknown', time.time() - t0, (e.stdout or b'').decode('utf-8', 'replace') if isinstance(e.stdout, bytes) else (e.stdout or '')
    v = 'success' if 'VERIFICATION SUCCESSFUL' in out else 'failed' if 'VERIFICATION FAILED' in out else 'error'
    return v, time.time() - t0, out


def trace_draws(out):
    """The logged nondeterministic draws tl[0..] of the (last) counterexample trace."""
    vals = {}
    for m in re.finditer(r'^\s*tl\[(\d+)l?\]=(-?\d+)', out, re.M):
        vals[int(m.group(1))] = int(m.group(2))
    n = 0
    while n in vals: n += 1
    return [vals[i] for i in range(n)]


def main(pid, tier, seed, replay_path, spec):
    t0 = time.time()
    work = os.path.join(VERIF, 'build', 'k-' + pid)
    shutil.rmtree(work, ignore_errors=True); os.makedirs(work)
    kernel_cc = os.path.join(VERIF, 'kernels', 'c19_watchdog.cc')
    ll = os.path.join(work, 'c19.ll')
    p = sh(CLANG + [kernel_cc, '-o', ll])
    if p.returncode != 0: raise SystemExit('clang failed:\n' + p.stdout[-3000:])
    gen = {}
    for name, entries, hooks in (('wd', WD_ENTRIES, False), ('wdh', WD_ENTRIES, True), ('ww', WW_ENTRIES, False)):
        cmd = [sys.executable, os.path.join(VERIF, 'ir2c', 'ir2c.py'), ll, '--entry', ','.join(entries)]
        if hooks: cmd += ['--hook', '*', '--nohook', ','.join(NOHOOK)]
        q = subprocess.run(cmd, stdout=subprocess.PIPE, stderr=subprocess.PIPE, text=True)
        if q.returncode != 0: raise SystemExit('ir2c failed (%s): %s' % (name, q.stderr[-2000:]))
        gen[name] = os.path.join(work, 'c19_%s.c' % name); open(gen[name], 'w').write(q.stdout)
    hook_points = open(gen['wdh']).read().count('verif_maybe_signal();')
    # ---- native builds: g++ real kernel, gcc generated C, same driver
    inc = ['-I' + os.path.join(VERIF, 'ir2c'), '-I' + os.path.join(VERIF, 'kernels')]
    cxx = ['g++', '-std=gnu++11', '-O1', '-frounding-math', '-DHAVE_CONFIG_H', '-DNDEBUG=1', '-w', '-fno-access-control', '-I' + REPO, '-I' + os.path.join(REPO, 'src')]
    real_o = os.path.join(work, 'real.o')
    p = sh(cxx + ['-c', kernel_cc, '-o', real_o])
    if p.returncode != 0: raise SystemExit('g++ failed on the kernel:\n' + p.stdout[-3000:])
    open(os.path.join(work, 'init_stub.cc'), 'w').write('#include "ppl-config.h"\n#include "Init_defs.hh"\nParma_Polyhedra_Library::Init::Init() {}\nParma_Polyhedra_Library::Init::~Init() {}\nextern "C" void ir2c_init_globals(void) {}\n')
    sh(cxx + ['-c', os.path.join(work, 'init_stub.cc'), '-o', os.path.join(work, 'init_stub.o')])
    exes = {}
    for mode, flag in (('wd', []), ('ww', ['-DDRV_WW'])):
        drv_o = os.path.join(work, 'drv_%s.o' % mode)
        p = sh(['gcc', '-O0', '-w', '-DNW=3'] + flag + inc + ['-c', os.path.join(VERIF, 'kernels', 'c19_native_main.c'), '-o', drv_o])
        if p.returncode != 0: raise SystemExit('driver failed:\n' + p.stdout[-2000:])
        exes[mode, 'real'] = os.path.join(work, 'drv_real_' + mode)
        p = sh(['g++', drv_o, real_o, os.path.join(work, 'init_stub.o'), '-o', exes[mode, 'real']])
        if p.returncode != 0: raise SystemExit('link (real) failed:\n' + p.stdout[-2000:])
        exes[mode, 'gen'] = os.path.join(work, 'drv_gen_' + mode)
        # externals of the generated C that only occur on exception paths (std::string, std::runtime_error, ...): aborting stubs
        stubs = ['#include <stdlib.h>']
        provided = set(re.findall(r'^\w[\w \*]*?\b(\w+)\(', open(os.path.join(VERIF, 'kernels', 'c19_harness.c' if mode == 'wd' else 'c19_ww_harness.c')).read(), re.M))
        for m in re.finditer(r'^extern ([\w \*]+?) ?(\w+)\((.*)\);$', open(gen[mode]).read(), re.M):
            if m.group(2) in provided or m.group(2) in ('strerror', 'strlen', '__errno_location', 'sigemptyset', 'memcpy', 'memset'): continue
            stubs.append('%s %s(%s) { abort(); }' % (m.group(1), m.group(2), m.group(3)))
        stub_c = os.path.join(work, 'stubs_%s.c' % mode); open(stub_c, 'w').write('\n'.join(stubs) + '\n')
        p = sh(['gcc', '-O0', '-w'] + inc + [drv_o, gen[mode], stub_c, '-o', exes[mode, 'gen']])
        if p.returncode != 0: raise SystemExit('link (generated) failed:\n' + p.stdout[-2000:])
    if replay_path:
        txt = dict(l.split(' ', 1) for l in open(replay_path).read().splitlines() if ' ' in l)
        p = sh([exes[txt['mode'], 'real'], txt['kinds'], txt['args']] + txt.get('draws', '').split())
        sys.stdout.write(p.stdout[-2000:])
        if 'ASSERT-FAIL' in p.stdout:
            print('VIOLATION property=%s replay=%s' % (pid, replay_path)); return 1
        print('replay: no assertion fails on the g++ build of the current tree'); return 0
    # ---- translator validation on random concrete histories
    rnd = random.Random(19)
    evals = bad = 0
    for mode in ('wd', 'ww'):
        for _ in range(150):
            L = rnd.randint(2, 6); ks, as_ = rnd.choice(scripts(L, 3))
            draws = []
            for k in ks:
                if mode == 'wd': draws += ([rnd.choice([0, 0, 1, 2]), rnd.randint(1, 99)] if k == 0 else [] if k == 1 else [rnd.choice([0, 0, 1, 3]), rnd.choice([0, 5000, 10000, 250000, 999999, rnd.randint(0, 999999)])])
                else: draws += ([rnd.choice([1, 5, 100, rnd.randint(1, 1000)])] if k == 0 else [] if k == 1 else [rnd.choice([0, 1, 5, 99, rnd.randint(0, 1200)])])
            if mode == 'ww': draws = [rnd.choice([0, 7, 1000])] + draws
            a = [','.join(map(str, ks)), ','.join(map(str, as_))] + [str(d) for d in draws]
            o1, o2 = sh([exes[mode, 'real']] + a).stdout, sh([exes[mode, 'gen']] + a).stdout
            evals += 1
            if o1 != o2 or ('RUN-DONE' not in o1 and 'ASSUME-FALSE' not in o1):
                bad += 1
                if bad <= 3: print('DIFF %s %s\n--- real\n%s--- generated\n%s' % (mode, ' '.join(a), o1[-600:], o2[-600:]))
    diff = {'evaluations': evals, 'disagreements': bad}
    print('DIFFERENTIAL evaluations=%d disagreements=%d' % (evals, bad))
    # ---- CBMC runs
    cfg = spec[tier] if tier in spec else spec['quick']
    cap = cfg.get('cap_s', 300)
    jobs = []
    for L in cfg.get('wd_lengths', [3]):
        for ks, as_ in scripts(L, cfg.get('wd_nw', 2)):
            jobs.append(('wd', ks, as_, [gen['wd'], os.path.join(VERIF, 'kernels', 'c19_harness.c')], 'harness_watchdog', ['NW=%d' % cfg.get('wd_nw', 2), 'NEV=%d' % L], L + 2, False))
    for ks, as_ in cfg.get('wdh_scripts', []):
        L = len(ks)
        jobs.append(('wdh', tuple(ks), tuple(as_), [gen['wdh'], os.path.join(VERIF, 'kernels', 'c19_harness.c')], 'harness_watchdog', ['NW=2', 'NEV=%d' % L, 'MAXSIG=1'], L + 2, False))
    for L in cfg.get('ww_lengths', [3, 4]):
        for ks, as_ in scripts(L, cfg.get('ww_nw', 2)):
            jobs.append(('ww', ks, as_, [gen['ww'], os.path.join(VERIF, 'kernels', 'c19_ww_harness.c')], 'harness_weightwatch', ['NW=%d' % cfg.get('ww_nw', 2), 'NEV=%d' % L], max(5, L + 2), True))
    def decide(jw):
        j, witness = jw
        mode, ks, as_, files, fn, defs, unwind, paths = j
        defs = defs + ['KINDS={%s}' % ','.join(map(str, ks)), 'ARGS={%s}' % ','.join(map(str, as_))] + (['WITNESS'] if witness else [])
        v, secs, out = cbmc_run(files, fn, defs, unwind, cap, paths)
        if witness: return {'witness': v, 'witness_seconds': round(secs, 1)}
        r = {'mode': mode, 'kinds': ks, 'args': as_, 'verdict': v, 'seconds': round(secs, 1)}
        if v == 'success':
            r['properties'] = len(re.findall(r': SUCCESS$', out, re.M))
        elif v == 'failed':
            r['failed'] = [f[2] for f in engine_k.failed_assertions(out)][:6]
            r['draws'] = trace_draws(out)
        elif v == 'error':
            r['reason'] = 'CBMC ended without a verdict (memory limit 10 GB or front-end error): ' + out[-160:].replace('\n', ' ')
        return r
    # the merged 4-event formulas need several GB each: fewer concurrent CBMC processes in the thorough tier
    with ThreadPoolExecutor(16 if tier == 'quick' else 6) as ex:
        both = list(ex.map(decide, [(j, w) for j in jobs for w in (False, True)]))
    results = []
    for k in range(len(jobs)):
        r = both[2 * k]; r.update(both[2 * k + 1]); r['witness_twin_fails'] = (r['witness'] == 'failed'); results.append(r)
    # ---- replay of counterexamples on the g++ build
    import findings
    known = findings.load(os.path.join(VERIF, 'known_findings.txt'), pid)
    violations, known_hits, mismatches = [], [], []
    for r in results:
        if r['verdict'] != 'failed': continue
        mode = 'ww' if r['mode'] == 'ww' else 'wd'
        a = [','.join(map(str, r['kinds'])), ','.join(map(str, r['args']))] + [str(d) for d in r['draws']]
        # the instrumented variant draws a clock advance at every hook: only the uninstrumented histories replay natively
        o = sh([exes[mode, 'real']] + a).stdout if r['mode'] != 'wdh' else ''
        r['replayed'] = 'ASSERT-FAIL' in o
        rp = os.path.join(VERIF, 'replay', pid); os.makedirs(rp, exist_ok=True)
        path = os.path.join(rp, '%s-%s.txt' % (r['mode'], hashlib.sha1(repr(a).encode()).hexdigest()[:10]))
        if r['replayed']:
            open(path, 'w').write('mode %s\nkinds %s\nargs %s\ndraws %s\nfailed %s\n' % (mode, a[0], a[1], ' '.join(a[2:]), '; '.join(r['failed'])))
            label = (re.findall(r'ASSERT-FAIL (.*)', o) or ['?'])[0]
            kf = findings.match(known, {'harness': 'C19_' + mode, 'params': {}}, {'label': label, 'inputs': {'kinds': a[0]}, 'facts': {}})
            if kf: known_hits.append((kf, path))
            else: violations.append({'mode': r['mode'], 'kinds': a[0], 'replay': path, 'failed': r['failed'], 'native': label})
        else:
            mismatches.append(r)
    for kf, path in known_hits:
        print('KNOWN-FINDING: property=%s %s [replay=%s]' % (pid, kf['text'], path))
    for v in violations:
        print('VIOLATION property=%s replay=%s' % (pid, v['replay']))
        print('  history=%s kinds=%s failed=%s native=%s' % (v['mode'], v['kinds'], v['failed'][:3], v['native']))
    for r in mismatches:
        if r['mode'] == 'wdh':
            # a counterexample of the instrumented variant cannot be replayed natively (no way to deliver a signal at a chosen instruction): reported as a candidate
            print('CANDIDATE property=%s instrumented history kinds=%s failed=%s (signal placement cannot be replayed natively; not reported as a violation)' % (pid, r['kinds'], r['failed'][:3]))
        else:
            print('ENGINE-MISMATCH property=%s history %s kinds=%s: the CBMC counterexample did not reproduce on the g++ build' % (pid, r['mode'], r['kinds']))
    nc = [r for r in results if r['verdict'] in ('unknown', 'error')]
    for r in nc:
        print('NOT-COVERED property=%s history %s kinds=%s args=%s (%s)' % (pid, r['mode'], r['kinds'], r['args'], r.get('reason', 'no verdict within %ds' % cap)))
    ok = [r for r in results if r['verdict'] == 'success']
    evidence = {
        'property_id': pid, 'tier': tier, 'seed': seed, 'level': 'other',
        'coverage': {
            'explanation': spec.get('explanation', ''),
            'technique': 'clang LLVM IR -> C translation of the real Watchdog / Threshold_Watcher code + CBMC bounded model checking (SAT: cadical) per history shape',
            'units_verified': ['src/Watchdog.cc', 'src/Watchdog_inlines.hh', 'src/Time.cc', 'src/Time_inlines.hh', 'src/Handler.cc', 'src/Handler_inlines.hh', 'src/Pending_List_*.hh', 'src/Pending_Element_*.hh', 'src/EList_*.hh', 'src/Doubly_Linked_Object_*.hh', 'src/Threshold_Watcher_*.hh', 'src/globals.cc (Weightwatch_Traits)'],
            'functions_encoded': spec.get('functions', []),
            'bounds': json.dumps(cfg),
            'outside_bounds': spec.get('outside', ''),
            'obligations': len(results), 'discharged': len(ok),
            'evaluations': len(results), 'distinct_nontrivial': sum(1 for r in ok if r.get('witness_twin_fails')),
            'rule': 'one evaluation = one history shape decided by CBMC for all delays / clock advances / weights (and signal positions in the instrumented variant); non-trivial = success with a failing -DWITNESS twin',
            'histories': [{k: (list(v) if isinstance(v, tuple) else v) for k, v in r.items() if k != 'draws'} for r in results],
            'not_covered': ['%s %s' % (r['mode'], list(r['kinds'])) for r in nc],
            'signal_injection_points': hook_points,
            'translator_validation': diff,
            'solver_s': round(sum(r['seconds'] + r.get('witness_seconds', 0) for r in results), 1),
            'samples': [{'mode': r['mode'], 'kinds': list(r['kinds']), 'verdict': r['verdict'], 'seconds': r['seconds']} for r in results[:8]],
            'stubs': ['getitimer/setitimer/sigaction -> model one-shot timer over (seconds, microseconds) time that fires exactly when due', 'actions -> verif_act(idx) recording the instant', 'operator new -> non-null malloc', 'C++ throw machinery -> flag ir2c_threw (asserted clear)'],
            'checker_cmd': './check %s --tier %s' % (pid, tier),
            'trusted_base': ['clang 14 (IR semantics)', 'ir2c.py (validated differentially on every run)', 'CBMC 6.11 + cadical', 'the timer model and oracle in kernels/c19_harness.c, kernels/c19_ww_harness.c'],
            'exhaustive': not nc,
        },
        'assumptions': ['the timer signal is delivered exactly when the model timer becomes due and is blocked while the handler runs', 'delays <= 2.99 s, single clock advances <= 3.999999 s (time harness); weights and deltas <= 2^40', 'system calls succeed; allocation succeeds'],
        'wall_s': round(time.time() - t0, 2), 'violations': len(violations),
    }
    os.makedirs(os.path.join(VERIF, 'evidence'), exist_ok=True)
    json.dump(evidence, open(os.path.join(VERIF, 'evidence', pid + '.json'), 'w'), indent=1)
    print('[check] %s tier=%s histories=%d success=%d failed=%d not_covered=%d violations=%d known=%d witness_ok=%d translator_diff=%s wall_s=%.0f' % (
        pid, tier, len(results), len(ok), sum(1 for r in results if r['verdict'] == 'failed'), len(nc), len(violations), len(known_hits), sum(1 for r in ok if r.get('witness_twin_fails')), diff, time.time() - t0))
    if bad:
        print('ENGINE-MISMATCH property=%s the generated C disagrees with the g++ build on concrete histories' % pid)
    return 1 if violations else 0
