"""Engine K driver: real kernels -> clang LLVM IR -> ir2c -> CBMC.

For each kernel set of a property: compile the extern "C" wrappers around the real templates of
/repo/src with clang, translate the IR of each entry point to C, validate the translation
differentially against the g++ build of the same wrappers, then decide every harness with CBMC
(back ends swept in parallel, first verdict wins) and require the -DWITNESS twin to fail.
Counterexamples are turned into calls of the g++-built real kernel and reported only if the
oracle also fails there."""
import os, sys, json, subprocess, time, re, hashlib, glob, shutil, signal
from concurrent.futures import ThreadPoolExecutor
VERIF = os.path.dirname(os.path.dirname(os.path.abspath(__file__)))
REPO = os.environ.get('VERIF_REPO', '/repo')
CLANG = ['clang++-14', '-std=c++11', '-O1', '-fno-vectorize', '-fno-slp-vectorize', '-fno-unroll-loops', '-frounding-math',
         '-fno-access-control', '-DHAVE_CONFIG_H', '-w', '-I' + REPO, '-I' + os.path.join(REPO, 'src'), '-mllvm', '-inline-threshold=100000', '-S', '-emit-llvm']
CBMC_FLAGS = ['--unwinding-assertions', '--undefined-shift-check', '--signed-overflow-check', '--drop-unused-functions', '--no-standard-checks', '--bounds-check', '--pointer-check', '--div-by-zero-check']


def sh(cmd, **kw):
    return subprocess.run(cmd, stdout=subprocess.PIPE, stderr=subprocess.STDOUT, text=True, **kw)


def build_ir(kernel_cc, work):
    ll = os.path.join(work, os.path.basename(kernel_cc)[:-3] + '.ll')
    p = sh(CLANG + [kernel_cc, '-o', ll])
    if p.returncode != 0:
        raise SystemExit('clang failed on %s:\n%s' % (kernel_cc, p.stdout[-3000:]))
    return ll


def translate(ll, entries, out_c, hooks=()):
    cmd = [sys.executable, os.path.join(VERIF, 'ir2c', 'ir2c.py'), ll, '--entry', ','.join(entries)]
    if hooks:
        cmd += ['--hook', ','.join(hooks)]
    p = subprocess.run(cmd, stdout=subprocess.PIPE, stderr=subprocess.PIPE, text=True)
    if p.returncode != 0:
        return p.stderr.strip()
    open(out_c, 'w').write(p.stdout)
    return None


def run_cbmc(files, function, unwind, defines, timeout, backends, extra=()):
    """Sweep the back ends in parallel; first definite verdict wins.  Returns (verdict, backend, seconds, output)."""
    base = ['cbmc'] + files + ['--function', function, '--unwind', str(unwind)] + CBMC_FLAGS + ['-I' + os.path.join(VERIF, 'ir2c'), '-I' + os.path.join(VERIF, 'kernels')] + ['-D' + d for d in defines] + list(extra)
    procs = {}
    t0 = time.time()
    for be in backends:
        flags = {'minisat': [], 'cadical': ['--sat-solver', 'cadical'], 'kissat': ['--external-sat-solver', 'kissat'], 'z3': ['--z3'], 'cvc5': ['--cvc5']}[be]
        procs[be] = subprocess.Popen(base + flags + ['--trace'], stdout=subprocess.PIPE, stderr=subprocess.STDOUT, text=True, preexec_fn=os.setsid)
    verdict, who, out = 'unknown', None, ''
    import selectors
    sel = selectors.DefaultSelector()
    bufs = {be: [] for be in procs}
    for be, p in procs.items():
        sel.register(p.stdout, selectors.EVENT_READ, be)
    alive = set(procs)
    while alive and time.time() - t0 < timeout and verdict == 'unknown':
        for key, _ in sel.select(timeout=1.0):
            be = key.data
            chunk = key.fileobj.readline()
            if chunk == '':
                sel.unregister(key.fileobj); alive.discard(be)
                txt = ''.join(bufs[be])
                if 'VERIFICATION SUCCESSFUL' in txt: verdict, who, out = 'success', be, txt
                elif 'VERIFICATION FAILED' in txt: verdict, who, out = 'failed', be, txt
                elif 'CONVERSION ERROR' in txt or 'PARSING ERROR' in txt: verdict, who, out = 'error', be, txt
                elif not out: out = txt
            else:
                bufs[be].append(chunk)
    for be, p in procs.items():
        if p.poll() is None:
            try: os.killpg(os.getpgid(p.pid), signal.SIGKILL)
            except ProcessLookupError: pass
        p.wait()
    return verdict, who, time.time() - t0, out


def failed_assertions(out):
    return re.findall(r'^\[([\w.$]+)\] line (\d+) (.*?): FAILURE', out, re.M)


def trace_inputs(out, names):
    """Last assignment of each harness-level variable in a CBMC --trace."""
    vals = {}
    for m in re.finditer(r'^\s*(\w+)=(-?\d+)[a-z]* \(', out, re.M):
        if m.group(1) in names:
            vals.setdefault(m.group(1), m.group(2))
    return vals


# ------------------------------------------------------------------------------------------------
# C11 / C03: checked integer primitives
TYPES = {  # suffix: (C type, unsigned C type used by the generated code, min, max)
    'i8': ('signed char', 'unsigned char', -2**7, 2**7 - 1), 'u8': ('unsigned char', 'unsigned char', 0, 2**8 - 1),
    'i16': ('short', 'unsigned short', -2**15, 2**15 - 1), 'u16': ('unsigned short', 'unsigned short', 0, 2**16 - 1),
    'i32': ('int', 'unsigned int', -2**31, 2**31 - 1), 'u32': ('unsigned int', 'unsigned int', 0, 2**32 - 1),
    'i64': ('long', 'unsigned long', -2**63, 2**63 - 1), 'u64': ('unsigned long', 'unsigned long', 0, 2**64 - 1)}
BIN = {'add': ('(W)x + (W)y', '1', ''), 'sub': ('(W)x - (W)y', '1', ''), 'mul': ('(W)x * (W)y', '1', ''),
       'div': ('(y < 0 ? -(W)x : (W)x)', '(y < 0 ? -(W)y : (W)y)', 'y != 0'), 'idiv': ('(W)x / (W)y', '1', 'y != 0'), 'rem': ('(W)x % (W)y', '1', 'y != 0'),
       'addmul': ('t0 + (W)x * (W)y', '1', ''), 'submul': ('t0 - (W)x * (W)y', '1', '')}
UN = {'neg': ('-(W)x', '1'), 'abs': ('((W)x < 0 ? -(W)x : (W)x)', '1')}
EXP = {'mul2exp': ('SHL((W)x, e)', '1'), 'div2exp': ('(W)x', '((W)1 << e)')}
XBIN = {'xadd': BIN['add'], 'xsub': BIN['sub'], 'xmul': BIN['mul'], 'xdiv': BIN['div']}
XUN = {'xneg': ('-(W)x', '1'), 'xdiv2': ('(W)x', '2')}
CONV = ['i8_i32', 'u8_i32', 'i8_u32', 'i16_i32', 'u16_i32', 'i32_i64', 'u32_i64', 'i32_u32', 'u32_i32', 'i64_u64', 'u64_i64']


def wlit(v):
    if -2**63 <= v < 2**63: return '((W)%dL)' % v if v != -2**63 else '((W)(-9223372036854775807L-1))'
    return '((W)%dUL)' % v


def c11_harness(kind, op, suf):
    """Returns (kernel entry name, harness function name, C text)."""
    dirs = '__CPROVER_assume((dir & ~15u) == 0u && ((dir & 7u) == 0u || (dir & 7u) == 1u || (dir & 7u) == 6u));'
    wit = '#ifdef WITNESS\n  assert(0);\n#endif\n'
    if kind == 'conv':
        to_s, from_s = suf.split('_')
        ct, ut, tmin, tmax = TYPES[to_s]; cf, uf, fmin, fmax = TYPES[from_s]
        k = 'k_assign_' + suf
        body = ('%s to = nondet_%s(); %s x = nondet_%s(); unsigned dir = nondet_uint(); %s\n' % (ct, to_s, cf, from_s, dirs) +
                '  unsigned r = %s((char*)&to, (%s)x, dir);\n  judge(r, (W)to, (W)x, 1, dir, %s, %s, 0, 0, 0, 0, 0, 0);\n' % (k, uf, wlit(tmin), wlit(tmax)))
        decl = 'unsigned int %s(char*, %s, unsigned int);\n%s nondet_%s(void); %s nondet_%s(void);\n' % (k, uf, ct, to_s, cf, from_s)
        h = 'h_assign_' + suf
        wt = '__int128' if '64' in suf else 'long'
        return k, h, '#define WTYPE %s\n#define MULED(v) (v)\n#include "c11_judge.h"\n' % wt + decl + 'void %s(void) {\n  %s%s}\n' % (h, body, wit)
    ct, ut, tmin, tmax = TYPES[suf]
    ext = op.startswith('x')
    if ext:
        if tmin < 0: minf, nan, lo, hi, pinf = tmin, tmin + 1, tmin + 2, tmax - 1, tmax
        else: pinf, minf, nan, lo, hi = tmax, tmax - 1, tmax - 2, 0, tmax - 3
    else:
        minf = nan = pinf = 0; lo, hi = tmin, tmax
    k = 'k_%s_%s' % (op, suf); h = 'h_%s_%s' % (op, suf)
    fin = lambda v: '__CPROVER_assume((W)%s >= %s && (W)%s <= %s);' % (v, wlit(lo), v, wlit(hi)) if ext else ''
    judge = 'judge(r, (W)to, en, ed, dir, %s, %s, %d, %s, %s, %s, %s);' % (wlit(lo), wlit(hi), 1 if ext else 0, wlit(pinf), wlit(minf), wlit(nan), '1, (W)x * (W)y' if op in ('addmul', 'submul') else '0, 0')
    if op in BIN or op in XBIN:
        en, ed, pre = (BIN.get(op) or XBIN[op])
        body = ('%s to = nondet_%s(), x = nondet_%s(), y = nondet_%s(); unsigned dir = nondet_uint(); %s %s %s %s\n' % (ct, suf, suf, suf, dirs, fin('x'), fin('y'), '__CPROVER_assume(%s);' % pre if pre else '') +
                '  W t0 = (W)to;\n  unsigned r = %s((char*)&to, (%s)x, (%s)y, dir);\n  W en = %s, ed = %s;\n  %s\n' % (k, ut, ut, en, ed, judge))
        decl = 'unsigned int %s(char*, %s, %s, unsigned int);\n' % (k, ut, ut)
    elif op in UN or op in XUN:
        en, ed = (UN.get(op) or XUN[op])
        body = ('%s to = nondet_%s(), x = nondet_%s(); unsigned dir = nondet_uint(); %s %s\n' % (ct, suf, suf, dirs, fin('x')) +
                '  unsigned r = %s((char*)&to, (%s)x, dir);\n  W en = %s, ed = %s;\n  %s\n' % (k, ut, en, ed, judge))
        decl = 'unsigned int %s(char*, %s, unsigned int);\n' % (k, ut)
    else:
        en, ed = EXP[op]
        body = ('%s to = nondet_%s(), x = nondet_%s(); unsigned e = nondet_uint(); unsigned dir = nondet_uint(); %s __CPROVER_assume(e <= EMAX);\n' % (ct, suf, suf, dirs) +
                '  g_e = e;\n  unsigned r = %s((char*)&to, (%s)x, e, dir);\n  W en = %s, ed = %s;\n  %s\n' % (k, ut, en, ed, judge))
        decl = 'unsigned int %s(char*, %s, unsigned int, unsigned int);\n' % (k, ut)
    decl += '%s nondet_%s(void);\n' % (ct, suf)
    # u32 products reach 2^64: they need the 128-bit oracle type as well (a 64-bit `long' overflowed in the oracle itself)
    wide = '__int128' if '64' in suf or (op in EXP and '32' in suf) or (suf == 'u32' and 'mul' in op) else 'long'
    muled = 'SHL((v), g_e)' if op == 'div2exp' else '((v) * ed)' if op in ('div', 'xdiv') else 'SHL((v), 1)' if op == 'xdiv2' else '(v)'
    return k, h, '#define WTYPE %s\n#define MULED(v) %s\n#define EMAX %su\n#include "c11_judge.h"\n' % (wide, muled, '24' if ('8' in suf or '16' in suf) else '40') + decl + 'void %s(void) {\n  %s%s}\n' % (h, body, wit)


def c11_list(spec_list):
    """spec entries: 'add:i8,i16' or 'conv:i8_i32' ..."""
    out = []
    for s in spec_list:
        op, _, sufs = s.partition(':')
        for suf in sufs.split(','):
            out.append(('conv' if op == 'conv' else 'op', op, suf))
    return out


NATIVE_NONDET = r'''
#include <stdio.h>
#include <stdlib.h>
#include <string.h>
/* native replay: nondet_* return the recorded values in call order */
static long long rec_[64]; static int nrec_, irec_;
static long long next_(void) { return irec_ < nrec_ ? rec_[irec_++] : 0; }
#define ND(T, S) T nondet_##S(void) { return (T) next_(); }
ND(signed char, i8) ND(unsigned char, u8) ND(short, i16) ND(unsigned short, u16) ND(int, i32) ND(unsigned int, u32) ND(long, i64) ND(unsigned long, u64) ND(unsigned int, uint)
'''


def kernel_sig(kind, op, suf):
    if kind == 'conv':
        to_s, from_s = suf.split('_'); return ('conv', TYPES[to_s], TYPES[from_s])
    t = TYPES[suf]
    if op in BIN or op in XBIN: return ('bin', t, t)
    if op in UN or op in XUN: return ('un', t, t)
    return ('exp', t, t)


def boundary(t):
    ct, ut, lo, hi = t
    vals = {lo, lo + 1, lo + 2, lo + 3, -1, 0, 1, 2, 3, 7, hi - 3, hi - 2, hi - 1, hi, (lo + hi) // 2, hi // 2, lo // 2 if lo else 5}
    return sorted(v for v in vals if lo <= v <= hi)


def diff_driver(items):
    """C driver comparing the generated C (symbols prefixed gen_) with the g++-built real kernels on a boundary grid."""
    out = ['#include <stdio.h>', '#include <string.h>', 'int ir2c_threw; int gen_ir2c_threw;', 'static long n_, bad_;']
    body = []
    for kind, op, suf in items:
        k = 'k_assign_' + suf if kind == 'conv' else 'k_%s_%s' % (op, suf)
        sig, tt, tf = kernel_sig(kind, op, suf)
        ct, ut = tt[0], tt[1]
        lit = lambda v: '(%dL)' % v if v != -2**63 else '(-9223372036854775807L-1)'
        if sig == 'bin':
            out.append('unsigned %s(%s*, %s, %s, unsigned); unsigned gen_%s(char*, %s, %s, unsigned);' % (k, ct, ct, ct, k, ut, ut))
            vs = ', '.join(lit(v) for v in boundary(tt))
            body.append('{ static const %s v[] = {%s}; unsigned nv = sizeof v / sizeof v[0]; static const unsigned ds[] = {0,1,6,8,9,14};\n'
                        '  for (unsigned a = 0; a < nv; ++a) for (unsigned b = 0; b < nv; ++b) for (unsigned d = 0; d < 6; ++d) for (int t0 = 0; t0 < 2; ++t0) {\n'
                        '    if (%s) continue;\n'
                        '    %s r1 = t0 ? v[a] : 5, r2 = r1; unsigned c1 = %s(&r1, v[a], v[b], ds[d]), c2 = gen_%s((char*)&r2, (%s)v[a], (%s)v[b], ds[d]); ++n_;\n'
                        '    if (c1 != c2 || ((c1 & 0x80u) == 0 && r1 != r2)) { if (bad_++ < 5) printf("DIFF %s a=%%ld b=%%ld dir=%%u: real (%%u,%%ld) generated (%%u,%%ld)\\n", (long)v[a], (long)v[b], ds[d], c1, (long)r1, c2, (long)r2); } } }'
                        % (ct, vs, 'v[b] == 0' if op in ('div', 'idiv', 'rem', 'xdiv') else '0', ct, k, k, ut, ut, k))
        elif sig == 'un':
            out.append('unsigned %s(%s*, %s, unsigned); unsigned gen_%s(char*, %s, unsigned);' % (k, ct, ct, k, ut))
            vs = ', '.join(lit(v) for v in boundary(tt))
            body.append('{ static const %s v[] = {%s}; unsigned nv = sizeof v / sizeof v[0]; static const unsigned ds[] = {0,1,6,8,9,14};\n'
                        '  for (unsigned a = 0; a < nv; ++a) for (unsigned d = 0; d < 6; ++d) {\n'
                        '    %s r1 = 5, r2 = 5; unsigned c1 = %s(&r1, v[a], ds[d]), c2 = gen_%s((char*)&r2, (%s)v[a], ds[d]); ++n_;\n'
                        '    if (c1 != c2 || ((c1 & 0x80u) == 0 && r1 != r2)) { if (bad_++ < 5) printf("DIFF %s a=%%ld dir=%%u: real (%%u,%%ld) generated (%%u,%%ld)\\n", (long)v[a], ds[d], c1, (long)r1, c2, (long)r2); } } }'
                        % (ct, vs, ct, k, k, ut, k))
        elif sig == 'exp':
            out.append('unsigned %s(%s*, %s, unsigned, unsigned); unsigned gen_%s(char*, %s, unsigned, unsigned);' % (k, ct, ct, k, ut))
            vs = ', '.join(lit(v) for v in boundary(tt))
            body.append('{ static const %s v[] = {%s}; unsigned nv = sizeof v / sizeof v[0]; static const unsigned ds[] = {0,1,6,8,9,14};\n'
                        '  for (unsigned a = 0; a < nv; ++a) for (unsigned e = 0; e <= 24; ++e) for (unsigned d = 0; d < 6; ++d) {\n'
                        '    %s r1 = 5, r2 = 5; unsigned c1 = %s(&r1, v[a], e, ds[d]), c2 = gen_%s((char*)&r2, (%s)v[a], e, ds[d]); ++n_;\n'
                        '    if (c1 != c2 || ((c1 & 0x80u) == 0 && r1 != r2)) { if (bad_++ < 5) printf("DIFF %s a=%%ld e=%%u dir=%%u: real (%%u,%%ld) generated (%%u,%%ld)\\n", (long)v[a], e, ds[d], c1, (long)r1, c2, (long)r2); } } }'
                        % (ct, vs, ct, k, k, ut, k))
        else:
            cf, uf = tf[0], tf[1]
            out.append('unsigned %s(%s*, %s, unsigned); unsigned gen_%s(char*, %s, unsigned);' % (k, ct, cf, k, uf))
            vs = ', '.join(lit(v) for v in sorted(set(boundary(tf) + [x for x in boundary(tt) if tf[2] <= x <= tf[3]])))
            body.append('{ static const %s v[] = {%s}; unsigned nv = sizeof v / sizeof v[0]; static const unsigned ds[] = {0,1,6,8,9,14};\n'
                        '  for (unsigned a = 0; a < nv; ++a) for (unsigned d = 0; d < 6; ++d) {\n'
                        '    %s r1 = 5, r2 = 5; unsigned c1 = %s(&r1, v[a], ds[d]), c2 = gen_%s((char*)&r2, (%s)v[a], ds[d]); ++n_;\n'
                        '    if (c1 != c2 || ((c1 & 0x80u) == 0 && r1 != r2)) { if (bad_++ < 5) printf("DIFF %s a=%%ld dir=%%u: real (%%u,%%ld) generated (%%u,%%ld)\\n", (long)v[a], ds[d], c1, (long)r1, c2, (long)r2); } } }'
                        % (cf, vs, ct, k, k, uf, k))
    out.append('int main(void) {')
    out += body
    out.append('  printf("DIFFERENTIAL evaluations=%ld disagreements=%ld\\n", n_, bad_); return bad_ != 0; }')
    return '\n'.join(out) + '\n'


def main(pid, tier, seed, replay_path, spec):
    t0 = time.time()
    work = os.path.join(VERIF, 'build', 'k-' + pid)
    shutil.rmtree(work, ignore_errors=True); os.makedirs(work)
    items = c11_list(spec[tier] if tier in spec else spec['quick'])
    kernel_cc = os.path.join(VERIF, 'kernels', spec['kernel'])
    ll = build_ir(kernel_cc, work)
    real_o = os.path.join(work, 'real.o')
    p = sh(['g++', '-std=gnu++11', '-O2', '-frounding-math', '-DHAVE_CONFIG_H', '-w', '-fno-access-control', '-I' + REPO, '-I' + os.path.join(REPO, 'src'), '-c', kernel_cc, '-o', real_o])
    if p.returncode != 0:
        raise SystemExit('g++ failed on the kernels:\n' + p.stdout[-3000:])
    init_o = os.path.join(work, 'init_stub.o')
    open(os.path.join(work, 'init_stub.cc'), 'w').write('#include "ppl-config.h"\n#include "Init_defs.hh"\nParma_Polyhedra_Library::Init::Init() {}\nParma_Polyhedra_Library::Init::~Init() {}\n')
    sh(['g++', '-std=gnu++11', '-DHAVE_CONFIG_H', '-w', '-I' + REPO, '-I' + os.path.join(REPO, 'src'), '-c', os.path.join(work, 'init_stub.cc'), '-o', init_o])
    real_o = [real_o, init_o]
    cap = spec.get('cap_s', {}).get(tier, 120)
    backends = spec.get('backends', ['minisat', 'cadical'])
    hs = []
    not_covered = []
    for kind, op, suf in items:
        k, h, txt = c11_harness(kind, op, suf)
        hc = os.path.join(work, h + '.c'); kc = os.path.join(work, h + '_k.c')
        open(hc, 'w').write(txt)
        err = translate(ll, [k], kc)
        if err:
            not_covered.append({'harness': h, 'reason': err}); continue
        hs.append((kind, op, suf, k, h, hc, kc))
    # ---- translator validation: generated C vs the g++ build of the real kernels
    gen_all = os.path.join(work, 'gen_all.c')
    err = translate(ll, sorted(set(x[3] for x in hs)), gen_all)
    diff = {'evaluations': 0, 'disagreements': -1}
    if not err:
        gen_o = os.path.join(work, 'gen_all.o')
        sh(['gcc', '-O1', '-w', '-I' + os.path.join(VERIF, 'ir2c'), '-c', gen_all, '-o', gen_o])
        sh(['objcopy', '--prefix-symbols=gen_', gen_o])
        # libc symbols must keep their names
        undef = sh(['nm', '-u', gen_o]).stdout.split()
        redefs = []
        for sym in undef:
            if sym.startswith('gen_') and not sym.startswith('gen_k_') and sym != 'gen_ir2c_threw':
                redefs += ['--redefine-sym', '%s=%s' % (sym, sym[4:])]
        if redefs: sh(['objcopy'] + redefs + [gen_o])
        drv = os.path.join(work, 'diff.c'); open(drv, 'w').write(diff_driver([(a, b, c) for a, b, c, *_ in hs]))
        exe = os.path.join(work, 'diff')
        p = sh(['g++', '-w', '-x', 'c', drv, '-x', 'none', gen_o] + real_o + ['-lgmpxx', '-lgmp', '-o', exe])
        if p.returncode != 0:
            # the wrappers are self-contained templates; link without libppl
            diff['link_error'] = p.stdout[-800:]
        else:
            p = sh([exe]); sys.stdout.write(p.stdout[-1500:])
            m = re.search(r'DIFFERENTIAL evaluations=(\d+) disagreements=(\d+)', p.stdout)
            if m: diff = {'evaluations': int(m.group(1)), 'disagreements': int(m.group(2))}
    # ---- CBMC
    def decide(x):
        kind, op, suf, k, h, hc, kc = x
        v, be, secs, out = run_cbmc([hc, kc], h, 3, [], cap, backends)
        res = {'harness': h, 'kernel': k, 'verdict': v, 'backend': be, 'seconds': round(secs, 1)}
        if v == 'success':
            w, wbe, wsecs, wout = run_cbmc([hc, kc], h, 3, ['WITNESS'], min(cap, 60), backends[:1])
            res['witness_twin_fails'] = (w == 'failed' and any('assertion 0' in f[2] for f in failed_assertions(wout)))
            res['properties'] = len(re.findall(r': SUCCESS$', out, re.M))
        elif v == 'failed':
            res['failed'] = [f[2] for f in failed_assertions(out)][:6]
            vals = {}
            for m in re.finditer(r'^\s+(to|x|y|dir|e)=(-?\d+)', out, re.M):
                vals.setdefault(m.group(1), int(m.group(2)))
            res['inputs'] = vals
            res['ub_only'] = all(not f[0].startswith('judge') for f in failed_assertions(out))
        return res
    with ThreadPoolExecutor(max(1, 16 // len(backends))) as ex:
        results = list(ex.map(decide, hs))
    # ---- replay of counterexamples against the g++ build of the real kernel
    violations, known_hits, ub = [], [], []
    import findings
    known = findings.load(os.path.join(VERIF, 'known_findings.txt'), pid)
    for r in results:
        if r['verdict'] != 'failed': continue
        if r.get('ub_only'):
            ub.append(r); continue
        x = [h for h in hs if h[4] == r['harness']][0]
        order = {'bin': ['to', 'x', 'y', 'dir'], 'un': ['to', 'x', 'dir'], 'exp': ['to', 'x', 'e', 'dir'], 'conv': ['to', 'x', 'dir']}[kernel_sig(x[0], x[1], x[2])[0]]
        vals = [r['inputs'].get(n, 0) for n in order]
        rp = os.path.join(VERIF, 'replay', pid); os.makedirs(rp, exist_ok=True)
        path = os.path.join(rp, '%s-%s.txt' % (r['harness'], hashlib.sha1(repr(vals).encode()).hexdigest()[:10]))
        open(path, 'w').write('harness %s\nvalues %s\nnames %s\n' % (r['harness'], ' '.join(map(str, vals)), ' '.join(order)))
        ok, out = native_replay(work, x, vals, real_o)
        r['replayed'] = ok
        if ok:
            fake_res = {'harness': r['harness'], 'params': {}}
            fv = {'label': r['failed'][0] if r['failed'] else '?', 'inputs': {n: str(v) for n, v in zip(order, vals)}, 'facts': {}}
            kf = findings.match(known, fake_res, fv)
            if kf: known_hits.append((kf, path))
            else: violations.append({'harness': r['harness'], 'replay': path, 'inputs': dict(zip(order, vals)), 'failed': r['failed']})
        else:
            os.remove(path)
    for kf, path in known_hits:
        print('KNOWN-FINDING: property=%s %s [replay=%s]' % (pid, kf['text'], path))
    for v in violations:
        print('VIOLATION property=%s replay=%s' % (pid, v['replay']))
        print('  harness=%s inputs=%s failed=%s' % (v['harness'], v['inputs'], v['failed'][:3]))
    for r in results:
        if r['verdict'] == 'error': r['reason'] = 'CBMC front-end error'
    nc = [r for r in results if r['verdict'] in ('unknown', 'error')] + not_covered
    for r in nc:
        print('NOT-COVERED property=%s harness=%s (%s)' % (pid, r['harness'], r.get('reason', 'no back end answered within %ds' % cap)))
    for r in results:
        if r['verdict'] == 'failed' and not r.get('ub_only') and not r.get('replayed'):
            print('ENGINE-MISMATCH property=%s harness=%s (CBMC counterexample did not reproduce on the g++ build)' % (pid, r['harness']))
    ok = [r for r in results if r['verdict'] == 'success']
    evidence = {
        'property_id': pid, 'tier': tier, 'seed': seed, 'level': 'other',
        'coverage': {
            'explanation': spec.get('explanation', '') + ' Each harness calls one real kernel (the template of /repo/src instantiated in an extern "C" wrapper, lowered by clang -O1 to LLVM IR and translated to C by ir2c) with nondeterministic operands, rounding direction and destination, and asserts the Result-relation oracle against the exact value computed in 128-bit arithmetic; CBMC decides it for all operand values of the stated width (no loops remain: --unwind 3 with unwinding assertions). The -DWITNESS twin (final assert(0)) must fail, which shows the oracle is reached.',
            'technique': 'clang LLVM IR -> C translation of the real kernels + CBMC bounded model checking',
            'units_verified': sorted(set(r['kernel'] for r in ok)),
            'functions_encoded': spec.get('functions', []),
            'bounds': 'full operand width per harness (8/16/32/64 bits as named in the harness), e <= 40 for *_2exp, rounding directions DOWN/UP/IGNORE with and without STRICT_RELATION',
            'outside_bounds': spec.get('outside', ''),
            'obligations': len(results), 'discharged': len(ok),
            'evaluations': len(results), 'distinct_nontrivial': len(ok),
            'rule': 'one evaluation = one (kernel, type) harness decided by CBMC over all operand values; non-trivial = verdict success with a failing witness twin',
            'harnesses': results, 'not_covered': [r['harness'] for r in nc],
            'witness_twins_failing_as_required': sum(1 for r in ok if r.get('witness_twin_fails')),
            'translator_validation': diff, 'ub_candidates': [{'harness': r['harness'], 'failed': r['failed']} for r in ub],
            'solver_s': round(sum(r['seconds'] for r in results), 1),
            'samples': [{'harness': r['harness'], 'verdict': r['verdict'], 'backend': r['backend'], 'seconds': r['seconds']} for r in results[:8]],
            'checker_cmd': './check %s --tier %s' % (pid, tier),
            'trusted_base': ['clang 14 (IR semantics)', 'ir2c.py (validated differentially on every run)', 'CBMC 6.11 + minisat/cadical', 'c11_judge.h oracle'],
            'exhaustive': not nc,
        },
        'assumptions': ['divisors are non-zero for div/idiv/rem (Check_Overflow_Policy does not check division by zero)', 'operands of the extended-number kernels are finite', 'the C generated from the clang IR is the semantics checked; the g++ build is compared on a boundary grid'],
        'wall_s': round(time.time() - t0, 2), 'violations': len(violations),
    }
    os.makedirs(os.path.join(VERIF, 'evidence'), exist_ok=True)
    json.dump(evidence, open(os.path.join(VERIF, 'evidence', pid + '.json'), 'w'), indent=1)
    print('[check] %s tier=%s harnesses=%d success=%d failed=%d not_covered=%d violations=%d known=%d translator_diff=%s wall_s=%.0f' % (
        pid, tier, len(results), len(ok), sum(1 for r in results if r['verdict'] == 'failed'), len(nc), len(violations), len(known_hits), diff, time.time() - t0))
    if diff.get('disagreements', 0) > 0:
        print('ENGINE-MISMATCH property=%s the generated C disagrees with the g++ build on the boundary grid' % pid)
    return 1 if violations else 0


def native_replay(work, x, vals, real_o):
    """Compile the harness natively against the g++-built real kernel; the oracle's assert aborts on a genuine failure."""
    kind, op, suf, k, h, hc, kc = x
    drv = os.path.join(work, h + '_replay.c')
    src = open(hc).read().replace('#include "c11_judge.h"', '#include "c11_judge.h"\n' + NATIVE_NONDET)
    src += '\nint main(int argc, char** argv) { for (int i = 1; i < argc && i < 64; ++i) rec_[nrec_++] = atoll(argv[i]); %s(); printf("REPLAY-OK\\n"); return 0; }\n' % h
    # the native kernel takes typed pointers; the harness declares the generated-C signature: same ABI for these scalar types
    open(drv, 'w').write(src)
    exe = os.path.join(work, h + '_replay')
    p = sh(['gcc', '-w', '-D__CPROVER_assume(c)=do{if(!(c)){printf("REPLAY-ASSUME-FALSE\\n");exit(0);}}while(0)', '-I' + os.path.join(VERIF, 'kernels'), drv] + real_o + ['-lstdc++', '-lgmpxx', '-lgmp', '-o', exe])
    if p.returncode != 0:
        return False, p.stdout
    p = sh([exe] + [str(v) for v in vals])
    return (p.returncode != 0 and 'REPLAY-ASSUME-FALSE' not in p.stdout), p.stdout
