#!/usr/bin/env python3
"""Regenerates MANIFEST.json from bounds.json (claimed checks) and lib/manifest_meta.json."""
import json, os
V = os.path.dirname(os.path.dirname(os.path.abspath(__file__)))
bounds = json.load(open(os.path.join(V, 'bounds.json')))
meta = json.load(open(os.path.join(V, 'lib', 'manifest_meta.json')))
props = [json.loads(l)['id'] for l in open(os.path.join(V, 'properties.jsonl'))]
checks, na = [], []
for pid in props:
    if pid in bounds and not bounds[pid].get('disabled'):
        b = bounds[pid]
        eng = b.get('engine', 'S')
        checks.append({
            'property_id': pid,
            'quick_cmd': './check %s --tier quick' % pid,
            'thorough_cmd': './check %s --tier thorough' % pid,
            'evidence_file': '/verif/evidence/%s.json' % pid,
            'replay_cmd_template': './check %s --replay {path}' % pid,
            'engine': 'engine-' + eng,
            'level_claimed': {'category': 'other', 'text': b.get('level_text', meta['default_level_text_' + eng]), 'design_ref': b.get('design_ref', 'DESIGN.md section 5, ' + pid)},
            'level_note': b.get('level_note', meta['default_level_note_' + eng]),
            'technique': b.get('technique', meta['default_technique_' + eng]),
        })
    else:
        na.append({'property_id': pid, 'reason': meta['not_applicable'].get(pid, 'no solver-based check has been built for this property yet')})
m = {'version': 1, 'setup_cmd': 'make -C /verif setup', 'hooks': meta['hooks'], 'engines': meta['engines'], 'checks': checks, 'notes': meta['notes'], 'not_applicable': na}
for e in m['engines']:
    e['serves_properties'] = [c['property_id'] for c in checks if c['engine'] == e['name']]
json.dump(m, open(os.path.join(V, 'MANIFEST.json'), 'w'), indent=1)
print('MANIFEST.json: %d checks, %d not applicable' % (len(checks), len(na)))
