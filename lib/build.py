"""Builds for Engine S: the symbolic build (all of /repo/src against the GMP shim)
and the concrete replay build (same sources against the real GMP).  Everything is
regenerated from /repo's working tree; object caches are keyed by a hash of the
sources and of the machinery, and stale caches are pruned."""
import hashlib, re, os, subprocess, sys, shutil, glob, time
from concurrent.futures import ThreadPoolExecutor

VERIF = os.path.dirname(os.path.dirname(os.path.abspath(__file__)))
REPO = os.environ.get('VERIF_REPO', '/repo')
BUILD = os.path.join(VERIF, 'build')
JOBS = int(os.environ.get('VERIF_JOBS', '16'))
CXX = 'g++'
COMMON = ['-std=gnu++11', '-DHAVE_CONFIG_H', '-w', '-fno-strict-aliasing']
# z3: the system 4.8.12 (libz3-dev) or, by default, the 5.1 library shipped with the z3-solver wheel of the tooling venv
# (4.8.12's incremental core diverges on mod-periodic integer queries that 5.1 decides at once).
Z3NEW = '/opt/veriftools/pyvenv/lib/python3.11/site-packages/z3'
USE_Z3NEW = os.environ.get('VERIF_Z3', 'new') == 'new' and os.path.exists(os.path.join(Z3NEW, 'lib', 'libz3.so'))
Z3INC = ['-I' + os.path.join(Z3NEW, 'include')] if USE_Z3NEW else []
Z3LINK = ['-L' + os.path.join(Z3NEW, 'lib'), '-Wl,-rpath,' + os.path.join(Z3NEW, 'lib'), '-lz3'] if USE_Z3NEW else ['-lz3']


def _hash_files(files, extra=''):
    h = hashlib.sha256(extra.encode())
    for f in sorted(files):
        h.update(f.encode())
        try:
            with open(f, 'rb') as fh:
                h.update(fh.read())
        except OSError:
            h.update(b'<missing>')
    return h.hexdigest()[:16]


def repo_sources():
    src = os.path.join(REPO, 'src')
    return (glob.glob(src + '/*.cc') + glob.glob(src + '/*.hh') + glob.glob(src + '/*.h')
            + [os.path.join(REPO, 'config.h'), os.path.join(REPO, 'ppl-config.h')])


def lib_sources():
    """The .cc files listed in src/Makefile.am (libppl_la_SOURCES etc.): dead files in src/ are not library code."""
    mk = open(os.path.join(REPO, 'src', 'Makefile.am')).read()
    names = sorted(set(re.findall(r'^([A-Za-z0-9_\-]+\.cc)\s*\\?\s*$', mk, re.M)))
    out = [os.path.join(REPO, 'src', n) for n in names if os.path.exists(os.path.join(REPO, 'src', n))]
    return [f for f in out if os.path.basename(f) not in ('ppl-config.cc', 'BUGS.cc', 'COPYING.cc', 'CREDITS.cc')]


def _run_many(cmds):
    def one(c):
        p = subprocess.run(c, stdout=subprocess.PIPE, stderr=subprocess.STDOUT, text=True)
        return (c, p.returncode, p.stdout)
    with ThreadPoolExecutor(JOBS) as ex:
        res = list(ex.map(one, cmds))
    bad = [(c, out) for c, rc, out in res if rc != 0]
    if bad:
        for c, out in bad[:3]:
            sys.stderr.write('BUILD FAILED: ' + ' '.join(c) + '\n' + out[-4000:] + '\n')
        raise SystemExit(2)


def _prune(prefix, keep):
    for d in glob.glob(os.path.join(BUILD, prefix + '-*')):
        if d != keep and time.time() - os.path.getmtime(d) > 60:
            shutil.rmtree(d, ignore_errors=True)


def _lib(kind, incs, opt, extra_hash_files):
    """Compile every src/*.cc of the working tree into build/<kind>-<hash>/libppl.a"""
    srcs = lib_sources()
    h = _hash_files(repo_sources() + extra_hash_files, kind + opt)
    d = os.path.join(BUILD, '%s-%s' % (kind, h))
    lib = os.path.join(d, 'libppl.a')
    if os.path.exists(lib):
        os.utime(d, None)
        return d
    tmp = d + '.tmp%d' % os.getpid()
    shutil.rmtree(tmp, ignore_errors=True)
    os.makedirs(tmp)
    cmds = []
    for s in srcs:
        o = os.path.join(tmp, os.path.basename(s)[:-3] + '.o')
        cmds.append([CXX] + COMMON + [opt] + incs + ['-I' + REPO, '-I' + os.path.join(REPO, 'src'), '-c', s, '-o', o])
    _run_many(cmds)
    subprocess.check_call(['ar', 'rcs', os.path.join(tmp, 'libppl.a')] + sorted(glob.glob(tmp + '/*.o')))
    for o in glob.glob(tmp + '/*.o'):
        os.remove(o)
    shutil.rmtree(d, ignore_errors=True)
    os.rename(tmp, d)
    _prune(kind, d)
    return d


def sym_lib():
    shim = glob.glob(os.path.join(VERIF, 'symgmp', '*.h'))
    return _lib('sym', ['-I' + os.path.join(VERIF, 'symgmp')], '-O1', shim)


def con_lib():
    return _lib('con', [], '-O1', [])


def harness_bin(names, mode):
    """Link the given harness sources (harness/<name>.cc) with the runtime into one binary."""
    libd = sym_lib() if mode == 'sym' else con_lib()
    rt = ['symrt_core.cc', 'symrt_gmp.cc'] if mode == 'sym' else ['conrt.cc']
    rt = [os.path.join(VERIF, 'symrt', f) for f in rt]
    hs = [os.path.join(VERIF, 'harness', n + '.cc') for n in names]
    hdrs = glob.glob(os.path.join(VERIF, 'symrt', '*.hh')) + glob.glob(os.path.join(VERIF, 'symrt', '*.inc')) + glob.glob(os.path.join(VERIF, 'oracle', '*.hh')) + glob.glob(os.path.join(VERIF, 'harness', '*.hh'))
    incs = Z3INC + ['-I' + os.path.join(VERIF, 'symrt'), '-I' + os.path.join(VERIF, 'oracle'), '-I' + os.path.join(VERIF, 'harness'),
            '-I' + REPO, '-I' + os.path.join(REPO, 'src'), '-I' + os.path.join(REPO, 'interfaces')]
    if mode == 'sym':
        incs = ['-I' + os.path.join(VERIF, 'symgmp')] + incs
    interfaces = any('C20' in n for n in names)
    extra = []
    if interfaces:
        # the C interface: generic part plus the generated Polyhedron file (regenerated by the repository's own m4 rules)
        cdir = os.path.join(REPO, 'interfaces', 'C')
        subprocess.run(['make', '-s', '-C', cdir, 'ppl_c.h', 'ppl_c_implementation_domains.cc.stamp'], stdout=subprocess.DEVNULL, stderr=subprocess.DEVNULL)
        extra = [os.path.join(cdir, 'ppl_c_implementation_common.cc'), os.path.join(cdir, 'ppl_c_Polyhedron.cc')]
        incs = incs + ['-I' + cdir]
        hdrs = hdrs + glob.glob(os.path.join(cdir, '*.hh')) + glob.glob(os.path.join(cdir, '*.h')) + glob.glob(os.path.join(cdir, '*.m4')) + glob.glob(os.path.join(REPO, 'interfaces', '*.m4'))
    objs, cmds = [], []
    for s in rt + hs + extra:
        h = _hash_files([s] + hdrs + repo_sources() + (glob.glob(os.path.join(VERIF, 'symgmp', '*.h')) if mode == 'sym' else []), mode + str(USE_Z3NEW))
        od = os.path.join(BUILD, 'obj-' + mode)
        os.makedirs(od, exist_ok=True)
        o = os.path.join(od, os.path.basename(s)[:-3] + '-' + h + '.o')
        objs.append(o)
        if not os.path.exists(o):
            for old in glob.glob(os.path.join(od, os.path.basename(s)[:-3] + '-*.o')):
                os.remove(old)
            cmds.append([CXX] + COMMON + ['-O1', '-g'] + incs + ['-c', s, '-o', o])
    _run_many(cmds)
    tag = _hash_files(objs + [os.path.join(libd, 'libppl.a')], mode + str(USE_Z3NEW))
    exe = os.path.join(BUILD, 'bin-%s-%s-%s' % (mode, '_'.join(names)[:60], tag))
    if not os.path.exists(exe):
        for old in glob.glob(os.path.join(BUILD, 'bin-%s-%s-*' % (mode, '_'.join(names)[:60]))):
            os.remove(old)
        cmd = [CXX, '-o', exe] + objs + [os.path.join(libd, 'libppl.a')] + Z3LINK + (['-lgmpxx'] if mode == 'con' else []) + ['-lgmp', '-lpthread']
        p = subprocess.run(cmd, stdout=subprocess.PIPE, stderr=subprocess.STDOUT, text=True)
        if p.returncode != 0:
            sys.stderr.write('LINK FAILED: ' + ' '.join(cmd) + '\n' + p.stdout[-6000:] + '\n')
            raise SystemExit(2)
    return exe


if __name__ == '__main__':
    t = time.time()
    print(sym_lib(), '%.1fs' % (time.time() - t))
