import sys, subprocess, time
sys.path.insert(0, '/verif/lib')
import build
names = sys.argv[1].split(',')
t=time.time(); exe = build.harness_bin(names, 'sym'); print(exe, '%.1fs'%(time.time()-t), file=sys.stderr)
sys.exit(subprocess.call([exe] + sys.argv[2:]))
