"""known_findings.txt: genuine defects recorded rather than repaired.

  known: property=<ID> id=<slug> harness=<regex> label=<regex> when=<python expr> :: <what fails>
  fixed: property=<ID> <commit> <what failed>

`when` is evaluated over i (integer inputs of the counterexample, by name, missing -> 0),
f (facts attached by the harness) and p (shape parameters); it must characterise the specific
failing inputs / call site, so that any other violation of the same property is still reported.
A `fixed:` line suppresses nothing.  The file is never written at run time."""
import re, shlex
import finding_helpers as _fh


class _D(dict):
    def __missing__(self, k):
        return 0


def load(path, pid):
    out = []
    try:
        lines = open(path).read().splitlines()
    except OSError:
        return out
    for ln in lines:
        ln = ln.strip()
        if not ln.startswith('known:'):
            continue
        head, _, text = ln[6:].partition(' :: ')
        kv = {}
        for tok in shlex.split(head):
            k, _, v = tok.partition('=')
            kv[k] = v
        if kv.get('property') != pid:
            continue
        out.append({'id': kv.get('id', 'kf%d' % len(out)), 'harness': kv.get('harness', '.*'), 'label': kv.get('label', '.*'),
                    'when': kv.get('when', 'True'), 'text': text.strip()})
    return out


def match(known, res, v):
    ins = _D()
    for k, val in (v.get('inputs') or {}).items():
        try:
            ins[k] = int(val)
        except (TypeError, ValueError):
            ins[k] = 0
    facts = _D(v.get('facts') or {})
    params = _D(res.get('params') or {})
    for kf in known:
        if not re.search(kf['harness'], res['harness']):
            continue
        if not re.search(kf['label'], v['label']):
            continue
        try:
            if eval(kf['when'], {'__builtins__': {'pip_rows': _fh.pip_rows, 'pip_has_equality': _fh.pip_has_equality, 'pip_incremental': _fh.pip_incremental, 'pip_forces_zero': _fh.pip_forces_zero, 'pip_first_tree_splits': _fh.pip_first_tree_splits, 'suc_context_line_meets_in_point': _fh.suc_context_line_meets_in_point, 'abs': abs, 'min': min, 'max': max, 'any': any, 'all': all, 'range': range, 'int': int, 'str': str, 'len': len}}, {'i': ins, 'f': facts, 'p': params}):
                return kf
        except Exception:
            continue
    return None
