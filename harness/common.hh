// Shared harness helpers: symbolic rows, reference sets, the "one set behind
// every query" oracle for polyhedra.
#ifndef HARNESS_COMMON_HH
#define HARNESS_COMMON_HH
#include "oracle.hh"
#include <sstream>

namespace hc {
using namespace Parma_Polyhedra_Library;
using z3::expr;
using oracle::RefSet; using oracle::Point;
using symrt::rterm; using symrt::term; using symrt::rval; using symrt::bval; using symrt::ival;

inline std::string S(const std::string& p, long i) { std::ostringstream os; os << p << i; return os.str(); }
inline std::string S(const std::string& p, long i, long j) { std::ostringstream os; os << p << i << "_" << j; return os.str(); }

struct SymRow { std::vector<mpz_class> a; mpz_class b; int kind; mpz_class m; };   // kind: 0 '=', 1 '>=', 2 '>', 3 congruence
// A symbolic constraint row a.x + b (kind) 0 with |a_j| <= B, |b| <= Bb; kinds allowed: nk (2: '=','>='; 3: also '>').
inline SymRow sym_row(const std::string& pfx, unsigned n, long B, long Bb, int nk) {
  SymRow r;
  for (unsigned j = 0; j < n; ++j) r.a.push_back(symrt::input(S(pfx + "a", j), -B, B));
  r.b = symrt::input(pfx + "b", -Bb, Bb);
  int k = nk <= 1 ? 0 : symrt::choose(pfx + "kind", nk);
  r.kind = (k == 0) ? 1 : (k == 1 ? 0 : 2);   // order of exploration: >=, =, >
  r.m = 0;
  return r;
}
inline Linear_Expression row_expr(const SymRow& r) {
  Linear_Expression e;
  for (unsigned j = 0; j < r.a.size(); ++j) e += r.a[j] * Variable(j);
  e += r.b;
  return e;
}
inline Constraint row_constraint(const SymRow& r) {
  Linear_Expression e = row_expr(r);
  if (r.kind == 0) return Constraint(e == 0);
  if (r.kind == 1) return Constraint(e >= 0);
  return Constraint(e > 0);
}
inline void ref_add(RefSet& R, const SymRow& r) {
  std::vector<expr> a; for (auto& c : r.a) a.push_back(term(c));
  if (r.kind == 3) R.add_cg(a, term(r.b), term(r.m)); else R.add(a, term(r.b), r.kind);
}
// status word of a polyhedron-like object from its ascii dump (coverage note)
template <typename T>
inline void note_status(const char* what, const T& x) {
  std::ostringstream os; x.ascii_dump(os); std::string s = os.str();
  size_t p = s.find('\n'); if (p == std::string::npos) return;
  size_t q = s.find('\n', p + 1);
  std::string w = s.substr(p + 1, q == std::string::npos ? std::string::npos : q - p - 1);
  if (w.size() > 120) w = w.substr(0, 120);
  symrt::note(std::string("status:") + what + ":" + w);
}
} // namespace hc
#endif
