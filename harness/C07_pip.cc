// C07: PIP solver -- evaluating the solution tree yields the lexicographic minimum for every
// parameter value.  Problem data are forked to concrete values; the solver quantifies over the
// (unbounded) non-negative integer parameter values and over all candidate points.
#include "common.hh"
using namespace hc;

namespace {
struct Prob { unsigned nv, np; std::vector<std::vector<mpz_class> > a; std::vector<mpz_class> b; std::vector<int> kind;
  unsigned dim() const { return nv + np; }
  // feasibility of the point y (variables) under the parameter values p (both integer-sorted)
  expr feasible(const std::vector<expr>& y, const std::vector<expr>& p, unsigned upto) const {
    expr f = bval(true);
    for (unsigned i = 0; i < upto && i < a.size(); ++i) { expr v = term(b[i]);
      for (unsigned j = 0; j < nv; ++j) v = v + term(a[i][j]) * y[j];
      for (unsigned j = 0; j < np; ++j) v = v + term(a[i][nv + j]) * p[j];
      f = f && (kind[i] == 0 ? v >= ival(0) : v == ival(0)); }
    for (auto& e : y) f = f && e >= ival(0);
    return f;
  }
  Constraint con(unsigned i) const { Linear_Expression e; for (unsigned j = 0; j < dim(); ++j) e += a[i][j] * Variable(j); e += b[i]; return kind[i] == 0 ? Constraint(e >= 0) : Constraint(e == 0); } };
Prob make_problem(unsigned nv, unsigned np, unsigned m, long B, long Bb) {
  Prob p; p.nv = nv; p.np = np;
  for (unsigned i = 0; i < m; ++i) { std::vector<mpz_class> r; for (unsigned j = 0; j < nv + np; ++j) r.push_back(symrt::cinput(S("a", i, j), -B, B));
    p.a.push_back(r); p.b.push_back(symrt::cinput(S("b", i), -Bb, Bb)); p.kind.push_back(symrt::choose(S("k", i), 2)); }
  return p;
}
// value of a linear expression over (variables unused, parameters, artificials) as an Int term
expr eval_params(const Linear_Expression& e, const Prob& pr, const std::vector<expr>& p, const std::vector<expr>& arts) {
  Coefficient c0 = e.inhomogeneous_term(); expr v = term(c0);
  for (unsigned j = 0; j < e.space_dimension(); ++j) {
    Coefficient c = e.coefficient(Variable(j)); if (c == 0) continue;
    if (j < pr.nv) { symrt::require(false, "C07: a tree expression mentions a problem variable"); continue; }
    if (j < pr.dim()) v = v + term(c) * p[j - pr.nv];
    else { unsigned k = j - pr.dim(); if (k >= arts.size()) { symrt::require(false, "C07: the tree uses an artificial parameter that is not declared on the path"); continue; } v = v + term(c) * arts[k]; }
  }
  return v;
}
// Walks the tree.  `path' is the conjunction of the conditions under which this node is reached.
void walk(const PIP_Tree_Node* node, const Prob& pr, unsigned upto, const std::vector<expr>& p, std::vector<expr> arts, expr path, const std::string& tag, int depth, long& leaves) {
  if (depth > 12) { symrt::out_of_bound("solution tree deeper than 12"); }
  if (node == 0) {
    // bottom: no non-negative integer point is feasible for these parameter values
    ++leaves;
    std::vector<expr> y; for (unsigned j = 0; j < pr.nv; ++j) y.push_back(symrt::fresh_int("y"));
    symrt::check(!(path && pr.feasible(y, p, upto)), tag + ": bottom reached but the problem is feasible for these parameter values");
    return;
  }
  // artificial parameters declared here: q = floor(e / d)
  for (PIP_Tree_Node::Artificial_Parameter_Sequence::const_iterator ap = node->art_parameter_begin(); ap != node->art_parameter_end(); ++ap) {
    expr q = symrt::fresh_int("q"); expr e = eval_params(*ap, pr, p, arts); Coefficient d = ap->denominator(); expr td = term(d);
    symrt::require(d > 0, tag + ": artificial parameter with a non-positive denominator");
    path = path && td * q <= e && e < td * q + td;
    arts.push_back(q);
  }
  expr cond = bval(true);
  const Constraint_System& cs = node->constraints();
  for (Constraint_System::const_iterator c = cs.begin(); c != cs.end(); ++c) { Linear_Expression ce(c->expression()); expr v = eval_params(ce, pr, p, arts); cond = cond && (c->is_equality() ? v == ival(0) : c->is_strict_inequality() ? v > ival(0) : v >= ival(0)); }
  if (const PIP_Decision_Node* dn = node->as_decision()) {
    walk(dn->child_node(true), pr, upto, p, arts, path && cond, tag, depth + 1, leaves);
    walk(dn->child_node(false), pr, upto, p, arts, path && !cond, tag, depth + 1, leaves);
    return;
  }
  const PIP_Solution_Node* sn = node->as_solution();
  symrt::require(sn != 0, tag + ": a node is neither a decision nor a solution node");
  if (!sn) return;
  ++leaves;
  // outside the node's own constraints the answer is bottom
  { std::vector<expr> y; for (unsigned j = 0; j < pr.nv; ++j) y.push_back(symrt::fresh_int("y"));
    symrt::check(!(path && !cond && pr.feasible(y, p, upto)), tag + ": a solution node's constraints exclude parameter values for which the problem is feasible"); }
  std::vector<expr> x; for (unsigned j = 0; j < pr.nv; ++j) x.push_back(eval_params(sn->parametric_values(Variable(j)), pr, p, arts));
  symrt::Batch b;
  b.add(z3::implies(path && cond, pr.feasible(x, p, upto)), tag + ": the solution is not a feasible non-negative integer point");
  std::vector<expr> y; for (unsigned j = 0; j < pr.nv; ++j) y.push_back(symrt::fresh_int("y"));
  expr lex = bval(false), eq = bval(true);
  for (unsigned j = 0; j < pr.nv; ++j) { lex = lex || (eq && y[j] < x[j]); eq = eq && y[j] == x[j]; }
  b.add(!(path && cond && pr.feasible(y, p, upto) && lex), tag + ": a lexicographically smaller feasible point exists");
  b.flush();
}
void check_tree(const PIP_Problem& pip, const Prob& pr, unsigned upto, const std::string& tag) {
  PIP_Problem_Status st = pip.solve();
  const PIP_Tree_Node* root = st == UNFEASIBLE_PIP_PROBLEM ? 0 : pip.solution();
  symrt::note(st == UNFEASIBLE_PIP_PROBLEM ? "status=unfeasible" : "status=optimized");
  symrt::require(pip.is_satisfiable() == (st != UNFEASIBLE_PIP_PROBLEM), tag + ": is_satisfiable() disagrees with solve()");
  std::vector<expr> p; expr ctx = bval(true);
  for (unsigned j = 0; j < pr.np; ++j) { p.push_back(symrt::fresh_int("p")); ctx = ctx && p[j] >= ival(0); }
  // constraints that mention no variable restrict the parameters: they are the context
  for (unsigned i = 0; i < upto && i < pr.a.size(); ++i) { bool has_var = false; for (unsigned j = 0; j < pr.nv; ++j) if (pr.a[i][j] != 0) has_var = true;
    if (!has_var) { expr v = term(pr.b[i]); for (unsigned j = 0; j < pr.np; ++j) v = v + term(pr.a[i][pr.nv + j]) * p[j]; ctx = ctx && (pr.kind[i] == 0 ? v >= ival(0) : v == ival(0)); } }
  { // a fact for the classification of findings: is the problem feasible for some parameter assignment with a non-zero parameter?
    std::vector<expr> y; for (unsigned j = 0; j < pr.nv; ++j) y.push_back(symrt::fresh_int("fy"));
    expr pos = bval(false); for (auto& e : p) pos = pos || e >= ival(1);
    symrt::fact("feasible_with_positive_parameter", symrt::possible(ctx && pos && pr.feasible(y, p, upto)) ? "1" : "0");
    expr allpos = bval(true); for (auto& e : p) allpos = allpos && e >= ival(1);
    symrt::fact("feasible_with_all_parameters_positive", symrt::possible(ctx && allpos && pr.feasible(y, p, upto)) ? "1" : "0"); }
  long leaves = 0;
  walk(root, pr, upto, p, std::vector<expr>(), ctx, tag, 0, leaves);
  symrt::note(S("leaves=", leaves));
  symrt::require(pip.OK(), tag + ": OK()");
}
}

SYMRT_HARNESS(C07_solve) {
  unsigned nv = symrt::param("nv", 1), np = symrt::param("np", 1), m = symrt::param("m", 2);
  long B = symrt::param("B", 1), Bb = symrt::param("Bb", 2);
  Prob pr = make_problem(nv, np, m, B, Bb);
  Variables_Set params; for (unsigned j = 0; j < np; ++j) params.insert(Variable(nv + j));
  PIP_Problem pip(nv + np);
  pip.add_to_parameter_space_dimensions(params);
  int cut = symrt::param("cutting", 0), piv = symrt::param("pivot", 0);
  pip.set_control_parameter(cut == 0 ? PIP_Problem::CUTTING_STRATEGY_FIRST : cut == 1 ? PIP_Problem::CUTTING_STRATEGY_DEEPEST : PIP_Problem::CUTTING_STRATEGY_ALL);
  pip.set_control_parameter(piv == 0 ? PIP_Problem::PIVOT_ROW_STRATEGY_FIRST : PIP_Problem::PIVOT_ROW_STRATEGY_MAX_COLUMN);
  unsigned first = symrt::param("incremental", 0) ? symrt::choose("first", m + 1) : m;
  for (unsigned i = 0; i < first; ++i) pip.add_constraint(pr.con(i));
  if (first < m) { symrt::at("PIP_Problem::solve (first)"); (void) pip.solve(); for (unsigned i = first; i < m; ++i) pip.add_constraint(pr.con(i)); }
  symrt::at("PIP_Problem::solve");
  check_tree(pip, pr, m, "C07");
}

// Incremental re-solve from a tableau with a non-unit common denominator: the rows solved first are a sum and a
// difference of two variables (their basis has determinant 2), the rows added afterwards mention a third variable
// that is still a zero-valued column of the first tableau.
SYMRT_HARNESS(C07_fractional) {
  long Bb = symrt::param("Bb", 2);
  Prob pr; pr.nv = 3; pr.np = 1;
  auto row = [&](long a0, long a1, long a2, long ap, const mpz_class& b) { std::vector<mpz_class> r; r.push_back(a0); r.push_back(a1); r.push_back(a2); r.push_back(ap); pr.a.push_back(r); pr.b.push_back(b); pr.kind.push_back(0); };
  long k = 1 + symrt::choose("k", 2);
  row(1, 1, 0, -k, symrt::cinput("b0", -Bb, Bb));                 // x0 + x1 >= k p - b0
  row(1, symrt::flag("s1") ? -1 : 1, 0, 0, symrt::cinput("b1", -1, 1));   // x0 -/+ x1 >= -b1
  long a = symrt::choose("a", 2), c = 1, d = symrt::choose("d", 3) - 1;
  row(0, a, c, -d, symrt::cinput("b2", -Bb, Bb));                 // a x1 + x2 >= d p - b2
  if (symrt::param("m", 3) > 3) row(-symrt::choose("e0", 2), -symrt::choose("e1", 2), 3, 0, symrt::cinput("b3", -1, 1));   // 3 x2 >= e0 x0 + e1 x1 - b3
  unsigned m = pr.a.size();
  Variables_Set params; params.insert(Variable(3));
  PIP_Problem pip(4); pip.add_to_parameter_space_dimensions(params);
  pip.add_constraint(pr.con(0)); pip.add_constraint(pr.con(1));
  symrt::at("PIP_Problem::solve (first)"); (void) pip.solve();
  for (unsigned i = 2; i < m; ++i) { pip.add_constraint(pr.con(i)); if (symrt::flag(S("resolve", i))) { symrt::at("PIP_Problem::solve (step)"); (void) pip.solve(); } }
  symrt::at("PIP_Problem::solve");
  check_tree(pip, pr, m, "C07");
}
