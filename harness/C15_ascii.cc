// C15: ascii_dump / ascii_load round-trips every object in every internal state.
#include "shapes.hh"
#include "lattice.hh"
#include <sstream>
using namespace sh;

namespace {
template <typename T> std::string dump(const T& x) { std::ostringstream os; x.ascii_dump(os); return os.str(); }
template <typename T> bool load(T& x, const std::string& text) { std::istringstream is(text); return x.ascii_load(is); }
template <typename D> expr set_of(const D& d, const Point& x) { return oracle::in_cs(d.constraints(), x); }
// Text equality where numbers are compared as values: a symbolic coefficient is printed as a token naming its
// term, and the loader may legitimately rebuild an equal term (e.g. by normalising a row).
bool same_text(const std::string& a, const std::string& b, const std::string& label) {
  std::istringstream ia(a), ib(b); std::string x, y; symrt::Batch bt; bool ok = true;
  auto numeric = [](const std::string& s) { if (s.size() > 2 && s[0] == '@' && s[1] == 'S') return true; size_t i = (s[0] == '-' || s[0] == '+') ? 1 : 0; if (i >= s.size()) return false; for (; i < s.size(); ++i) if (!isdigit((unsigned char)s[i])) return false; return true; };
  while (true) {
    bool ha = bool(ia >> x), hb = bool(ib >> y);
    if (ha != hb) { ok = false; break; }
    if (!ha) break;
    if (x == y) continue;
    if (numeric(x) && numeric(y) && (x[0] == '@' || y[0] == '@')) bt.add(symrt::token_term(x) == symrt::token_term(y), label);
    else { ok = false; break; }
  }
  symrt::require(ok, label);
  return bt.flush() && ok;
}

// round trip of a set-valued domain object; `follow' applies a follow-up operation to both copies
template <typename D, typename F>
void round_trip(const D& orig, D& fresh, F follow, const std::string& tag) {
  std::string t1 = dump(orig);
  bool ok = load(fresh, t1);
  symrt::require(ok, tag + ": ascii_load failed on the text produced by ascii_dump");
  if (!ok) return;
  symrt::require(fresh.OK(), tag + ": the loaded object violates the class invariant");
  std::string t2 = dump(fresh);
  same_text(t1, t2, tag + ": the loaded object dumps to a different text");
  { Point p = oracle::fresh_point(orig.space_dimension()); symrt::check(set_of(orig, p) == set_of(fresh, p), tag + ": the loaded object denotes a different set"); }
  D a(orig), b(fresh);
  follow(a); follow(b);
  { Point p = oracle::fresh_point(a.space_dimension()); symrt::check(set_of(a, p) == set_of(b, p), tag + ": a follow-up operation gives different results on the loaded object"); }
}
template <typename PH>
void run_poly(const char* name, bool nnc) {
  unsigned n = symrt::param("n", 2), m = symrt::param("m", 2); long Bb = symrt::param("Bb", 2);
  PH ph(n);
  for (unsigned i = 0; i < m; ++i) {
    SymRow r = sym_row(S("c", i), n, 1, Bb, nnc ? 3 : 2); ph.add_constraint(row_constraint(r));
    int st = symrt::choose(S("st", i), 5);      // lazy states: pending constraints, minimized, generators up to date, pending generators
    if (st == 1) (void) ph.generators(); else if (st == 2) (void) ph.minimized_constraints(); else if (st == 3) (void) ph.minimized_generators();
    else if (st == 4) { (void) ph.minimized_constraints(); if (!ph.is_empty()) ph.add_generator(point(Variable(0))); }
  }
  note_status(name, ph);
  PH fresh(n);
  mpz_class k = symrt::input("fk", -Bb, Bb);
  int fo = symrt::choose("follow", 3);
  round_trip(ph, fresh, [&](PH& x) { if (fo == 0) x.add_constraint(Variable(0) <= k); else if (fo == 1) x.affine_image(Variable(0), Variable(0) + k); else (void) x.minimized_generators(); }, std::string("C15 ") + name);
}
template <typename D>
void run_shape(const char* name) {
  unsigned n = symrt::param("n", 2), m = symrt::param("m", 2); long Bb = symrt::param("Bb", 2);
  // rational bounds cross the text as digits: the data are forked to concrete values
  D d(n);
  for (unsigned k = 0; k < m; ++k) {
    unsigned i = symrt::choose(S("i", k), n); int s1 = symrt::flag(S("s", k)) ? -1 : 1; mpz_class b = symrt::cinput(S("b", k), -Bb, Bb);
    unsigned j = (Traits<D>::fam == BOX || n == 1) ? i : symrt::choose(S("j", k), n);
    Linear_Expression e = s1 * Variable(i); if (j != i) e += (Traits<D>::fam == BDS ? -s1 : (symrt::flag(S("t", k)) ? -1 : 1)) * Variable(j);
    if (symrt::flag(S("half", k))) d.refine_with_constraint(2 * e <= b); else d.add_constraint(e <= b);
    int st = symrt::choose(S("st", k), 3); if (st == 1) (void) d.is_empty(); else if (st == 2) (void) d.minimized_constraints();
  }
  note_status(name, d);
  D fresh(n);
  int fo = symrt::choose("follow", 2);
  round_trip(d, fresh, [&](D& x) { if (fo == 0) x.add_constraint(Variable(0) <= 1); else x.unconstrain(Variable(0)); }, std::string("C15 ") + name);
}
}
SYMRT_HARNESS(C15_poly) { run_poly<C_Polyhedron>("C_Polyhedron", false); }
SYMRT_HARNESS(C15_nnc) { run_poly<NNC_Polyhedron>("NNC_Polyhedron", true); }
SYMRT_HARNESS(C15_bds) { run_shape<BD_Shape<mpq_class> >("BD_Shape<mpq>"); }
SYMRT_HARNESS(C15_oct) { run_shape<Octagonal_Shape<mpq_class> >("Octagonal_Shape<mpq>"); }
SYMRT_HARNESS(C15_box) { run_shape<Rational_Box>("Rational_Box"); }

SYMRT_HARNESS(C15_systems) {
  unsigned n = symrt::param("n", 2); long B = symrt::param("B", 2);
  // constraint / generator / congruence systems and linear expressions with symbolic coefficients
  Constraint_System cs; Generator_System gs; Congruence_System cgs;
  for (int i = 0; i < 2; ++i) {
    SymRow r = sym_row(S("r", i), n, B, B, 3);
    cs.insert(row_constraint(r));
    Linear_Expression e = row_expr(r);
    cgs.insert((e %= 0) / mpz_class(symrt::choose(S("mod", i), 3)));
    expr nz = bval(false); for (auto& c : r.a) nz = nz || term(c) != ival(0);
    if (symrt::decide(nz)) { Linear_Expression h; for (unsigned j = 0; j < n; ++j) h += r.a[j] * Variable(j); gs.insert(i == 0 ? ray(h) : line(h)); }
  }
  gs.insert(point(Variable(0), symrt::input("pd", 1, 3)));
  { Constraint_System x; std::string t = dump(cs); symrt::require(load(x, t), "C15 Constraint_System: load failed"); symrt::require(dump(x) == t && x.OK(), "C15 Constraint_System: text or invariant differs");
    Point p = oracle::fresh_point(n); symrt::check(oracle::in_cs(x, p) == oracle::in_cs(cs, p), "C15 Constraint_System: meaning differs"); }
  { Generator_System x; std::string t = dump(gs); symrt::require(load(x, t), "C15 Generator_System: load failed"); symrt::require(dump(x) == t && x.OK(), "C15 Generator_System: text or invariant differs"); }
  { Congruence_System x; std::string t = dump(cgs); symrt::require(load(x, t), "C15 Congruence_System: load failed"); symrt::require(dump(x) == t && x.OK(), "C15 Congruence_System: text or invariant differs"); }
  { Linear_Expression e; for (unsigned j = 0; j < n; ++j) e += symrt::input(S("e", j), -B, B) * Variable(j); Linear_Expression x; std::string t = dump(e); symrt::require(load(x, t), "C15 Linear_Expression: load failed"); symrt::require(dump(x) == t && x.is_equal_to(e), "C15 Linear_Expression: differs"); }
}

SYMRT_HARNESS(C15_grid) {
  unsigned n = symrt::param("n", 2); long B = symrt::param("B", 2);
  symrt::obligation_solver(2); oracle::GRID_D = 60;
  Grid gr(n); oracle::CgSet R(n);
  for (int i = 0; i < 2; ++i) {
    std::vector<mpz_class> a; Linear_Expression e; for (unsigned j = 0; j < n; ++j) { a.push_back(symrt::cinput(S("a", i, j), -B, B)); e += a[j] * Variable(j); }
    mpz_class b = symrt::cinput(S("b", i), -B, B); e += b; mpz_class mod(symrt::choose(S("mod", i), 4));
    gr.add_congruence((e %= 0) / mod); R.add(a, b, mod);
    int st = symrt::choose(S("st", i), 4); if (st == 1) (void) gr.grid_generators(); else if (st == 2) (void) gr.minimized_congruences(); else if (st == 3) (void) gr.minimized_grid_generators();
  }
  note_status("Grid", gr);
  Grid x(n); std::string t = dump(gr);
  symrt::require(load(x, t), "C15 Grid: ascii_load failed"); symrt::require(x.OK(), "C15 Grid: invariant"); symrt::require(dump(x) == t, "C15 Grid: text differs");
  oracle::IPoint p = oracle::fresh_gpoint(n);
  symrt::check(oracle::CgSet::from(x.congruences(), n).contains(p) == R.contains(p), "C15 Grid: the loaded grid denotes a different set");
  Grid a(gr), b(x); a.add_congruence((Variable(0) %= 1) / 2); b.add_congruence((Variable(0) %= 1) / 2);
  symrt::require(a == b && dump(a) == dump(b), "C15 Grid: follow-up operation differs on the loaded grid");
}

SYMRT_HARNESS(C15_mip) {
  unsigned n = 2; long B = symrt::param("B", 1), Bb = symrt::param("Bb", 2);
  MIP_Problem mip(n);
  for (int i = 0; i < 2; ++i) { Linear_Expression e; for (unsigned j = 0; j < n; ++j) e += symrt::cinput(S("a", i, j), -B, B) * Variable(j); e += symrt::input(S("b", i), -Bb, Bb); mip.add_constraint(e >= 0);
    int st = symrt::choose(S("st", i), 3); if (st == 1) (void) mip.is_satisfiable(); else if (st == 2) (void) mip.solve(); }
  mip.set_objective_function(Variable(0) + symrt::cinput("c1", -1, 1) * Variable(1));
  if (symrt::flag("max")) mip.set_optimization_mode(MAXIMIZATION); else mip.set_optimization_mode(MINIMIZATION);
  if (symrt::flag("solved")) (void) mip.solve();
  MIP_Problem x; std::string t = dump(mip);
  symrt::require(load(x, t), "C15 MIP_Problem: ascii_load failed"); symrt::require(x.OK(), "C15 MIP_Problem: invariant"); symrt::require(dump(x) == t, "C15 MIP_Problem: text differs");
  MIP_Problem_Status s1 = mip.solve(), s2 = x.solve();
  symrt::require(s1 == s2, "C15 MIP_Problem: the loaded problem answers differently");
  if (s1 == OPTIMIZED_MIP_PROBLEM) { Coefficient n1, d1, n2, d2; mip.optimal_value(n1, d1); x.optimal_value(n2, d2); symrt::check(term(n1) * term(d2) == term(n2) * term(d1), "C15 MIP_Problem: optimal value differs after load"); }
}

// powersets: disjuncts are boxes with symbolic integer bounds (so empty, nested and overlapping disjuncts - i.e.
// non-omega-reduced states - are paths), optionally emptied / made redundant after insertion
SYMRT_HARNESS(C15_pset) {
  typedef Pointset_Powerset<C_Polyhedron> PS;
  unsigned n = symrt::param("n", 1), k = symrt::param("k", 2); long Bb = symrt::param("Bb", 2);
  PS ps(n, EMPTY);
  auto reported = [&](const PS& p, const Point& x) { expr f = bval(false); for (PS::const_iterator i = p.begin(); i != p.end(); ++i) f = f || oracle::in_cs(i->pointset().constraints(), x); return f; };
  for (unsigned i = 0; i < k; ++i) {
    C_Polyhedron ph(n);
    for (unsigned j = 0; j < n; ++j) { ph.add_constraint(Variable(j) >= symrt::input(S("lo", i, j), -Bb, Bb)); ph.add_constraint(Variable(j) <= symrt::input(S("hi", i, j), -Bb, Bb)); }
    ps.add_disjunct(ph);
    int st = symrt::choose(S("st", i), 4);
    if (st == 1) ps.omega_reduce(); else if (st == 2) ps.add_constraint(Variable(0) >= symrt::input(S("cut", i), -Bb, Bb)); else if (st == 3) (void) ps.is_empty();
  }
  std::string t1 = dump(ps);
  PS fresh(n, symrt::flag("fresh_universe") ? UNIVERSE : EMPTY);
  bool ok = load(fresh, t1);
  symrt::require(ok, "C15 Pointset_Powerset: ascii_load failed on the text produced by ascii_dump");
  if (!ok) return;
  symrt::require(fresh.OK(), "C15 Pointset_Powerset: the loaded object violates the class invariant");
  { // saturation matrices that the status line marks as not up-to-date are dumped as they happen to be in memory:
    // a difference confined to them is reported under its own label
    auto split = [](const std::string& t, std::string& live, std::string& stale) {
      std::istringstream is(t); std::string w; bool sc = true, sg = true;
      while (is >> w) {
        if (w == "+SC") sc = true; else if (w == "-SC") sc = false; else if (w == "+SG") sg = true; else if (w == "-SG") sg = false;
        if ((w == "sat_c" && !sc) || (w == "sat_g" && !sg)) { std::string r, x, c; is >> r >> x >> c; long n = atol(r.c_str()) * atol(c.c_str()); stale += w + " " + r + "x" + c; for (long k = 0; k < n && (is >> w); ++k) stale += " " + w; stale += "\n"; live += " " + std::string(w == "sat_c" ? "sat_c" : "sat_g") + " (stale)"; continue; }
        live += " " + w;
      } };
    std::string l1, s1, l2, s2, t2 = dump(fresh); split(t1, l1, s1); split(t2, l2, s2);
    same_text(l1, l2, "C15 Pointset_Powerset: the loaded object dumps to a different text");
    symrt::require(s1 == s2, "C15 Pointset_Powerset: the loaded object dumps to a different text (only inside a saturation matrix that the status line marks as not up-to-date)"); }
  { Point p = oracle::fresh_point(n); symrt::check(reported(ps, p) == reported(fresh, p), "C15 Pointset_Powerset: the loaded object denotes a different set"); }
  // same answers and same follow-up behaviour
  symrt::require(ps.is_empty() == fresh.is_empty() && ps.is_bottom() == fresh.is_bottom(), "C15 Pointset_Powerset: the loaded object answers differently (is_empty / is_bottom)");
  PS a(ps), b(fresh);
  int fo = symrt::choose("follow", 3);
  if (fo == 0) { a.omega_reduce(); b.omega_reduce(); } else if (fo == 1) { a.pairwise_reduce(); b.pairwise_reduce(); } else { mpz_class c = symrt::input("fk", -Bb, Bb); a.add_constraint(Variable(0) <= c); b.add_constraint(Variable(0) <= c); a.omega_reduce(); b.omega_reduce(); }
  symrt::require(a.size() == b.size() && a.OK() && b.OK(), "C15 Pointset_Powerset: a follow-up operation gives a different number of disjuncts (or breaks OK()) on the loaded object");
  symrt::require(a == b, "C15 Pointset_Powerset: a follow-up operation gives syntactically different powersets on the loaded object");
  { Point p = oracle::fresh_point(n); symrt::check(reported(a, p) == reported(b, p), "C15 Pointset_Powerset: a follow-up operation gives different sets on the loaded object"); }
}
