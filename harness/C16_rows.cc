// C16: sparse and dense rows are interchangeable.  The same operation sequence is run on
// DENSE and SPARSE (and mixed) linear expressions / constraints / generators / congruences built
// from the same symbolic coefficients (the zero pattern is symbolic, so the insertions and
// erasures inside the sparse tree are data-driven); results must agree coefficient by coefficient.
#include "common.hh"
using namespace hc;

namespace {
Linear_Expression build(const std::vector<mpz_class>& c, const mpz_class& b, Representation r) {
  Linear_Expression e(r);
  e.set_space_dimension(c.size());
  for (unsigned j = 0; j < c.size(); ++j) e.set_coefficient(Variable(j), c[j]);
  e.set_inhomogeneous_term(b);
  return e;
}
void same_expr(const Linear_Expression& d, const Linear_Expression& s, const std::string& label) {
  symrt::require(d.space_dimension() == s.space_dimension(), label + ": space dimensions differ");
  symrt::Batch b;
  unsigned n = d.space_dimension() < s.space_dimension() ? d.space_dimension() : s.space_dimension();
  for (unsigned j = 0; j < n; ++j) { Coefficient x = d.coefficient(Variable(j)), y = s.coefficient(Variable(j)); b.add(term(x) == term(y), label + S(": coefficient ", j) + " differs between dense and sparse"); }
  { Coefficient x = d.inhomogeneous_term(), y = s.inhomogeneous_term(); b.add(term(x) == term(y), label + ": inhomogeneous term differs"); }
  b.flush();
  symrt::require(d.is_equal_to(s) && s.is_equal_to(d), label + ": is_equal_to across representations");
  symrt::require(d.all_homogeneous_terms_are_zero() == s.all_homogeneous_terms_are_zero(), label + ": all_homogeneous_terms_are_zero differs");
  symrt::require(d.is_zero() == s.is_zero(), label + ": is_zero differs");
  // structural observers: the non-zero terms visited by the iterators, lower_bound, all_zeroes
  { Linear_Expression::const_iterator i = d.begin(), j = s.begin(); bool ok = true; unsigned steps = 0;
    for (; i != d.end() && j != s.end() && steps < 64; ++i, ++j, ++steps) { if (i.variable().id() != j.variable().id()) { ok = false; break; } Coefficient x = *i, y = *j; if (symrt::decide(term(x) == ival(0)) || symrt::decide(term(y) == ival(0))) { ok = false; break; } }
    symrt::require(ok && (i == d.end()) == (j == s.end()), label + ": the iterators over the non-zero terms differ (or visit a zero)"); }
  for (unsigned v = 0; v < n; ++v) { Variables_Set vs; vs.insert(Variable(v)); symrt::require(d.all_zeroes(vs) == s.all_zeroes(vs), label + ": all_zeroes differs");
    Linear_Expression::const_iterator i = d.lower_bound(Variable(v)), j = s.lower_bound(Variable(v));
    symrt::require((i == d.end()) == (j == s.end()) && (i == d.end() || i.variable().id() == j.variable().id()), label + ": lower_bound differs"); }
  symrt::require(d.OK() && s.OK(), label + ": OK()");
}
void apply(Linear_Expression& e, const Linear_Expression& other, int op, unsigned n, const mpz_class& k, const mpz_class& k2, unsigned v1, unsigned v2) {
  switch (op) {
  case 0: e += other; break;
  case 1: e -= other; break;
  case 2: e *= k; break;
  case 3: add_mul_assign(e, k, other); break;
  case 4: sub_mul_assign(e, k, other); break;
  case 5: add_mul_assign(e, k, Variable(v1)); break;
  case 6: e.swap_space_dimensions(Variable(v1), Variable(v2)); break;
  case 7: e.shift_space_dimensions(Variable(v1), 2); break;
  case 8: { Variables_Set vs; vs.insert(Variable(v1)); if (v2 != v1) vs.insert(Variable(v2)); e.remove_space_dimensions(vs); break; }
  case 9: { if (n >= 3) { std::vector<Variable> cyc; cyc.push_back(Variable(v1)); cyc.push_back(Variable((v1 + 1) % n)); cyc.push_back(Variable((v1 + 2) % n)); e.permute_space_dimensions(cyc); } break; }
  case 10: e.set_coefficient(Variable(v1), k); break;
  case 11: neg_assign(e); break;
  case 12: e.set_space_dimension(n + 3); e.set_coefficient(Variable(n + 2), k); e.set_space_dimension(v1 + 1); break;
  case 13: e += Variable(v2); e -= Variable(v1); break;
  case 14: if (e.space_dimension() == other.space_dimension() && k != 0 && k2 != 0) e.linear_combine(other, k, k2); break;
  case 15: if (e.space_dimension() == other.space_dimension()) e.linear_combine_lax(other, k, k2); break;
  }
}
}

SYMRT_HARNESS(C16_expr) {
  unsigned n = symrt::param("n", 5), steps = symrt::param("steps", 2); long B = symrt::param("B", 1);
  std::vector<mpz_class> c1, c2;
  for (unsigned j = 0; j < n; ++j) { c1.push_back(symrt::input(S("a", j), -B, B)); c2.push_back(symrt::input(S("b", j), -B, B)); }
  mpz_class i1 = symrt::input("ai", -B, B), i2 = symrt::input("bi", -B, B);
  Linear_Expression d = build(c1, i1, DENSE), s = build(c1, i1, SPARSE);
  Linear_Expression od = build(c2, i2, DENSE), os = build(c2, i2, SPARSE);
  same_expr(d, s, "C16 build");
  bool mixed = symrt::flag("mixed");
  for (unsigned t = 0; t < steps; ++t) {
    int op = symrt::choose(S("op", t), 16);
    mpz_class k = symrt::input(S("k", t), -2, 2), k2 = (op >= 14) ? symrt::input(S("l", t), -2, 2) : mpz_class(1);
    unsigned dim = d.space_dimension(); if (dim == 0) break;
    unsigned v1 = symrt::choose(S("v", t), dim), v2 = symrt::choose(S("w", t), dim);
    apply(d, mixed ? os : od, op, dim, k, k2, v1, v2);
    apply(s, mixed ? od : os, op, dim, k, k2, v1, v2);
    same_expr(d, s, S("C16 after step ", t));
  }
  // the rows built from the results behave identically
  if (d.space_dimension() > 0) {
    Constraint cd(d >= 0), cs(s >= 0);
    symrt::require(cd.is_tautological() == cs.is_tautological() && cd.is_inconsistent() == cs.is_inconsistent(), "C16 constraint: tautology / inconsistency differ");
    symrt::Batch b;
    for (unsigned j = 0; j < cd.space_dimension() && j < cs.space_dimension(); ++j) { Coefficient x = cd.coefficient(Variable(j)), y = cs.coefficient(Variable(j)); b.add(term(x) == term(y), "C16 constraint: normalized coefficient differs"); }
    { Coefficient x = cd.inhomogeneous_term(), y = cs.inhomogeneous_term(); b.add(term(x) == term(y), "C16 constraint: normalized inhomogeneous term differs"); }
    b.flush();
    symrt::require(cd.is_equivalent_to(cs), "C16 constraint: is_equivalent_to across representations");
    Constraint ed(d == 0), es(s == 0);
    symrt::require(ed.is_equivalent_to(es) && ed.is_inconsistent() == es.is_inconsistent(), "C16 equality constraint differs");
    // systems with different representations
    Constraint_System sd(DENSE), ss(SPARSE); sd.insert(cd); sd.insert(ed); ss.insert(cs); ss.insert(es);
    C_Polyhedron pd(sd), ps(ss);
    symrt::require(pd == ps, "C16: polyhedra built from dense and sparse systems differ");
    // generators / congruences
    bool nz = !d.all_homogeneous_terms_are_zero();
    if (nz) { Generator gd = ray(d), gs = ray(s); symrt::require(gd.is_equivalent_to(gs), "C16 generator: rays differ");
      Generator qd = point(d, mpz_class(2)), qs = point(s, mpz_class(2)); symrt::require(qd.is_equivalent_to(qs), "C16 generator: points differ"); }
    Congruence gd2 = (d %= 0) / mpz_class(3), gs2 = (s %= 0) / mpz_class(3);
    symrt::require(gd2.is_tautological() == gs2.is_tautological() && gd2.is_inconsistent() == gs2.is_inconsistent(), "C16 congruence: tautology / inconsistency differ");
  }
}
