// C10: products denote the intersection of their components; reductions never lose it.
// First component: C_Polyhedron (box constraints with symbolic bounds plus one relational row);
// second component: Grid (data forked to concrete values).  Points range over (1/D) Z^n.
#include "common.hh"
#include "lattice.hh"
using namespace hc;
using oracle::CgSet; using oracle::IPoint; using oracle::fresh_gpoint;

namespace {
// constraint system over lattice points x = X / D:  a.x + b (>=, =, >) 0   <=>   a.X + b D (..) 0
expr cs_at(const Constraint_System& cs, const IPoint& p) {
  expr f = bval(true); expr D = ival(oracle::GRID_D);
  for (Constraint_System::const_iterator c = cs.begin(); c != cs.end(); ++c) {
    Coefficient b = c->inhomogeneous_term(); expr v = term(b) * D;
    for (unsigned j = 0; j < c->space_dimension() && j < p.X.size(); ++j) { Coefficient a = c->coefficient(Variable(j)); v = v + term(a) * p.X[j]; }
    f = f && (c->is_equality() ? v == ival(0) : c->is_strict_inequality() ? v > ival(0) : v >= ival(0));
  }
  return f;
}
struct Comp { C_Polyhedron ph; Grid gr; Constraint_System fed_cs; CgSet fed_cg; Comp(unsigned n) : ph(n), gr(n), fed_cg(n) {}
  expr in(const IPoint& p) const { return cs_at(fed_cs, p) && fed_cg.contains(p); } };
Comp make_components(const std::string& pfx, unsigned n, long Bb, long B, int K) {
  Comp c(n);
  for (unsigned j = 0; j < n; ++j) {
    int have = symrt::choose(pfx + S("have", j), 3);
    if (have != 2) { mpz_class lo = symrt::input(pfx + S("lo", j), -Bb, Bb); c.fed_cs.insert(Variable(j) >= lo); }
    if (have != 1) { mpz_class hi = symrt::input(pfx + S("hi", j), -Bb, Bb); c.fed_cs.insert(Variable(j) <= hi); }
  }
  if (n >= 2 && symrt::flag(pfx + "rel")) { mpz_class r = symrt::input(pfx + "relc", -Bb, Bb); c.fed_cs.insert(Variable(0) - Variable(1) <= r); }
  c.ph.add_constraints(c.fed_cs);
  std::vector<mpz_class> a; Linear_Expression e;
  for (unsigned j = 0; j < n; ++j) { a.push_back(symrt::cinput(pfx + S("ga", j), -B, B)); e += a[j] * Variable(j); }
  mpz_class b = symrt::cinput(pfx + "gb", -B, B); e += b; mpz_class mod(symrt::choose(pfx + "gmod", K + 1));
  c.gr.add_congruence((e %= 0) / mod); c.fed_cg.add(a, b, mod);
  return c;
}
template <typename P>
expr reported(const P& p, const IPoint& x) { unsigned n = p.space_dimension(); return cs_at(p.domain1().constraints(), x) && CgSet::from(p.domain2().congruences(), n).contains(x); }

template <typename P>
void run(const char* name) {
  unsigned n = symrt::param("n", 1); long Bb = symrt::param("Bb", 4), B = symrt::param("B", 2); int K = symrt::param("K", 3);
  int op = symrt::param("op", 0);
  symrt::obligation_solver(2); oracle::GRID_D = symrt::param("D", 12);
  Comp c = make_components("p", n, Bb, B, K);
  P p(c.ph); p.refine_with_congruences(c.gr.congruences());
  std::string tag = std::string("C10 ") + name + S(" op", op);
  switch (op) {
  case 0: { // explicit / implicit reduction keeps the intersection; components only shrink
    int how = symrt::choose("how", 3);
    if (how == 0) (void) p.is_empty(); else if (how == 1) (void) p.domain1(); else (void) p.OK();
    IPoint x = fresh_gpoint(n), y = fresh_gpoint(n), z = fresh_gpoint(n);
    symrt::Batch b;
    b.add(reported(p, x) == c.in(x), tag + ": reduction changed the intersection of the components");
    b.add(!(cs_at(p.domain1().constraints(), y) && !cs_at(c.fed_cs, y)), tag + ": reduction enlarged the first component");
    b.add(!(CgSet::from(p.domain2().congruences(), n).contains(z) && !c.fed_cg.contains(z)), tag + ": reduction enlarged the second component");
    b.flush();
    symrt::require(p.OK(), tag + ": OK()");
    break; }
  case 1: { // definite answers of predicates are true of the intersections
    Comp d = make_components("q", n, Bb, B, K);
    P q(d.ph); q.refine_with_congruences(d.gr.congruences());
    symrt::Batch b;
    if (p.is_empty()) { IPoint x = fresh_gpoint(n); b.add(!c.in(x), tag + ": is_empty() but the intersection has a point"); }
    if (p.contains(q)) { IPoint x = fresh_gpoint(n); b.add(!(d.in(x) && !c.in(x)), tag + ": contains() but a point of the argument's intersection is missing"); }
    if (p.is_disjoint_from(q)) { IPoint x = fresh_gpoint(n); b.add(!(d.in(x) && c.in(x)), tag + ": is_disjoint_from() but the intersections meet"); }
    if (p == q) { IPoint x = fresh_gpoint(n); b.add(d.in(x) == c.in(x), tag + ": operator== but the intersections differ"); }
    if (p.is_bounded()) { IPoint x = fresh_gpoint(n), y = fresh_gpoint(n); expr far = bval(false); long M = 100000 * oracle::GRID_D; for (unsigned j = 0; j < n; ++j) far = far || x.X[j] > ival(M) || x.X[j] < ival(-M); b.add(!(c.in(x) && far), tag + ": is_bounded() but the intersection has far points"); (void) y; }
    b.flush();
    // intersection_assign / upper_bound_assign
    P r(p); r.intersection_assign(q);
    { IPoint x = fresh_gpoint(n); symrt::check(reported(r, x) == (c.in(x) && d.in(x)), tag + ": intersection_assign is not the intersection"); }
    P u(p); u.upper_bound_assign(q);
    { IPoint x = fresh_gpoint(n); symrt::check(!((c.in(x) || d.in(x)) && !reported(u, x)), tag + ": upper_bound_assign lost a point"); }
    break; }
  case 2: { // transformers: the result's intersection contains the exact image
    unsigned v = symrt::choose("var", n);
    mpz_class k = symrt::cinput("k", -2, 2), sh = symrt::input("sh", -Bb, Bb);
    if (k == 0) { // x_v := sh
      P r(p); r.affine_image(Variable(v), Linear_Expression(sh));
      IPoint x = fresh_gpoint(n); IPoint y = x; y.X[v] = term(sh) * ival(oracle::GRID_D);
      symrt::check(!(c.in(x) && !reported(r, y)), tag + ": affine_image lost the image of a point");
    }
    else { // x_v := k x_v + sh
      P r(p); r.affine_image(Variable(v), k * Variable(v) + sh);
      IPoint x = fresh_gpoint(n); IPoint y = x; y.X[v] = term(k) * x.X[v] + term(sh) * ival(oracle::GRID_D);
      symrt::check(!(c.in(x) && !reported(r, y)), tag + ": affine_image lost the image of a point");
      P pre(p); pre.affine_preimage(Variable(v), k * Variable(v) + sh);
      IPoint z = fresh_gpoint(n); IPoint w = z; w.X[v] = term(k) * z.X[v] + term(sh) * ival(oracle::GRID_D);
      symrt::check(!(c.in(w) && !reported(pre, z)), tag + ": affine_preimage lost a point of the preimage");
    }
    P u(p); u.unconstrain(Variable(v));
    { IPoint x = fresh_gpoint(n); IPoint y = x; y.X[v] = symrt::fresh_int("t"); symrt::check(!(c.in(x) && !reported(u, y)), tag + ": unconstrain lost a point"); }
    break; }
  }
}
}
typedef Domain_Product<C_Polyhedron, Grid>::Direct_Product DP;
typedef Domain_Product<C_Polyhedron, Grid>::Smash_Product SP;
typedef Domain_Product<C_Polyhedron, Grid>::Constraints_Product CP;
typedef Domain_Product<C_Polyhedron, Grid>::Congruences_Product GP;
typedef Domain_Product<C_Polyhedron, Grid>::Shape_Preserving_Product HP;
SYMRT_HARNESS(C10_direct) { run<DP>("Direct_Product"); }
SYMRT_HARNESS(C10_smash) { run<SP>("Smash_Product"); }
SYMRT_HARNESS(C10_constraints) { run<CP>("Constraints_Product"); }
SYMRT_HARNESS(C10_congruences) { run<GP>("Congruences_Product"); }
SYMRT_HARNESS(C10_shape) { run<HP>("Shape_Preserving_Product"); }
