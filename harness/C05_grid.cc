// C05: grids -- congruence and generator descriptions agree, queries answer
// from that set, operators are exact.  Grid data are forked to concrete values
// (cinput); the solver quantifies over all points of (1/2520) Z^n.
#include "common.hh"
#include "lattice.hh"
using namespace hc;
using oracle::CgSet; using oracle::Lattice; using oracle::IPoint; using oracle::fresh_gpoint;

namespace {
struct SymGrid { std::unique_ptr<Grid> gr; CgSet R; SymGrid(unsigned n) : R(n) {} };
SymGrid grid_from_congruences(const std::string& pfx, unsigned n, unsigned m, long B, long Bb, int K) {
  SymGrid sg(n);
  sg.gr.reset(new Grid(n));
  for (unsigned i = 0; i < m; ++i) {
    std::vector<mpz_class> a; Linear_Expression e;
    for (unsigned j = 0; j < n; ++j) { a.push_back(symrt::cinput(S(pfx, i) + S("a", j), -B, B)); e += a[j] * Variable(j); }
    mpz_class b = symrt::cinput(S(pfx, i) + "b", -Bb, Bb); e += b;
    mpz_class mod(symrt::choose(S(pfx, i) + "mod", K + 1));
    sg.gr->add_congruence((e %= 0) / mod);
    sg.R.add(a, b, mod);
  }
  return sg;
}
// Grid from a point with divisor, parameters and lines
struct GenGrid { std::unique_ptr<Grid> gr; Lattice L; GenGrid(unsigned n) : L(n) {} };
GenGrid grid_from_generators(const std::string& pfx, unsigned n, unsigned k, long B) {
  GenGrid gg(n);
  Grid_Generator_System ggs;
  { Linear_Expression e; for (unsigned j = 0; j < n; ++j) e += symrt::cinput(pfx + S("p", j), -B, B) * Variable(j);
    mpz_class d(1 + symrt::choose(pfx + "pd", 3)); ggs.insert(grid_point(e, d)); }
  for (unsigned i = 0; i < k; ++i) {
    Linear_Expression e; bool nz = false;
    for (unsigned j = 0; j < n; ++j) { mpz_class c = symrt::cinput(pfx + S("g", i, j), -B, B); if (c != 0) nz = true; e += c * Variable(j); }
    if (!nz) continue;
    int kind = symrt::choose(pfx + S("k", i), 2);
    if (kind == 0) { mpz_class d(1 + symrt::choose(pfx + S("d", i), 3)); ggs.insert(parameter(e, d)); } else ggs.insert(grid_line(e));
  }
  gg.L = Lattice::from(ggs, n);
  gg.gr.reset(new Grid(ggs));
  return gg;
}
template <typename Set>
void check_grid(const Grid& gr, const Set& R, unsigned n, const std::string& tag, bool queries) {
  symrt::Batch b;
  bool empty = gr.is_empty();
  symrt::note(std::string("grid_empty=") + (empty ? "1" : "0"));
  { IPoint x = fresh_gpoint(n); b.add(R.contains(x) == CgSet::from(gr.congruences(), n).contains(x), tag + ": congruences() differ from the set"); }
  { IPoint x = fresh_gpoint(n); b.add(R.contains(x) == CgSet::from(gr.minimized_congruences(), n).contains(x), tag + ": minimized_congruences() differ from the set"); }
  if (empty) { IPoint x = fresh_gpoint(n); b.add(!R.contains(x), tag + ": is_empty() but the set has a point"); }
  else {
    Lattice L = Lattice::from(gr.grid_generators(), n);
    symrt::require(!L.empty, tag + ": non-empty grid without a point generator");
    IPoint x = fresh_gpoint(n);
    b.add(R.contains(x) == L.contains(x), tag + ": grid_generators() differ from the set");
    Lattice M = Lattice::from(gr.minimized_grid_generators(), n);
    IPoint y = fresh_gpoint(n);
    b.add(R.contains(y) == M.contains(y), tag + ": minimized_grid_generators() differ from the set");
  }
  b.flush();
  if (!queries) return;
  { IPoint x = fresh_gpoint(n); bool u = gr.is_universe();
    if (u) symrt::check(R.contains(x), tag + ": is_universe() but a point is missing");
    else if (!symrt::possible(!R.contains(x))) symrt::require(false, tag + ": !is_universe() but the set is the whole space"); }
  if (!empty) {
    Lattice M = Lattice::from(gr.minimized_grid_generators(), n);
    { IPoint x = fresh_gpoint(n), y = fresh_gpoint(n); expr diff = bval(false); for (unsigned j = 0; j < n; ++j) diff = diff || x.X[j] != y.X[j];
      bool two = symrt::possible(R.contains(x) && R.contains(y) && diff);
      symrt::require(gr.is_bounded() == !two, tag + ": is_bounded() wrong"); }
    symrt::require(gr.is_discrete() == M.lines.empty(), tag + ": is_discrete() disagrees with the reported lines");
    symrt::require(gr.affine_dimension() == M.params.size() + M.lines.size(), tag + ": affine_dimension() disagrees with the minimized generators");
  }
  symrt::require(gr.OK(), tag + ": OK()");
}
}

SYMRT_HARNESS(C05_from_congruences) {
  unsigned n = symrt::param("n", 1), m = symrt::param("m", 1);
  long B = symrt::param("B", 2), Bb = symrt::param("Bb", B); int K = symrt::param("K", 3);
  symrt::obligation_solver(2); oracle::GRID_D = symrt::param("D", 60);
  SymGrid G = grid_from_congruences("c", n, m, B, Bb, K);
  if (symrt::param("touch", 0) && symrt::flag("touch")) (void) G.gr->minimized_grid_generators();
  note_status("grid", *G.gr);
  check_grid(*G.gr, G.R, n, "C05", true);
}

SYMRT_HARNESS(C05_from_generators) {
  unsigned n = symrt::param("n", 2), k = symrt::param("k", 1); long B = symrt::param("B", 1);
  symrt::obligation_solver(2); oracle::GRID_D = symrt::param("D", 60);
  GenGrid G = grid_from_generators("g", n, k, B);
  if (symrt::param("touch", 0) && symrt::flag("touch")) (void) G.gr->minimized_congruences();
  note_status("grid", *G.gr);
  check_grid(*G.gr, G.L, n, "C05 gens", true);
}

SYMRT_HARNESS(C05_ops) {
  unsigned n = symrt::param("n", 1), m = symrt::param("m", 1);
  long B = symrt::param("B", 2), Bb = symrt::param("Bb", B); int K = symrt::param("K", 3);
  int op = symrt::param("op", 0);
  symrt::obligation_solver(2); oracle::GRID_D = symrt::param("D", 60);
  SymGrid G = grid_from_congruences("c", n, m, B, Bb, K);
  Grid& gr = *G.gr; const CgSet& R = G.R;
  std::string tag = S("C05 op", op);
  switch (op) {
  case 0: { // relation_with(Congruence): exact
    std::vector<mpz_class> qa; Linear_Expression e; for (unsigned j = 0; j < n; ++j) { qa.push_back(symrt::cinput(S("qa", j), -B, B)); e += qa[j] * Variable(j); }
    mpz_class qb = symrt::cinput("qb", -Bb, Bb); e += qb; mpz_class qm(symrt::choose("qmod", K + 1));
    Poly_Con_Relation rel = gr.relation_with((e %= 0) / qm);
    CgSet Q(n); Q.add(qa, qb, qm);
    IPoint x = fresh_gpoint(n), y = fresh_gpoint(n);
    bool some_in = symrt::possible(R.contains(x) && Q.contains(x)), some_out = symrt::possible(R.contains(y) && !Q.contains(y));
    bool inc = rel.implies(Poly_Con_Relation::is_included()), dis = rel.implies(Poly_Con_Relation::is_disjoint()), si = rel.implies(Poly_Con_Relation::strictly_intersects());
    symrt::require(!inc || !some_out, tag + ": relation_with(cg) is_included but a point violates cg");
    symrt::require(!dis || !some_in, tag + ": relation_with(cg) is_disjoint but a point satisfies cg");
    symrt::require(!si || (some_in && some_out), tag + ": relation_with(cg) strictly_intersects is wrong");
    symrt::require(inc || dis || si, tag + ": relation_with(cg) returned no relation");
    break; }
  case 1: { // contains / strictly_contains / is_disjoint_from / == / intersection_assign
    SymGrid H = grid_from_congruences("d", n, m, B, Bb, K);
    bool cont = gr.contains(*H.gr), sc = gr.strictly_contains(*H.gr), disj = gr.is_disjoint_from(*H.gr), eq = (gr == *H.gr);
    IPoint x = fresh_gpoint(n), y = fresh_gpoint(n), z = fresh_gpoint(n);
    bool t_cont = !symrt::possible(H.R.contains(x) && !R.contains(x));
    bool t_disj = !symrt::possible(H.R.contains(y) && R.contains(y));
    bool t_eq = !symrt::possible(H.R.contains(z) != R.contains(z));
    symrt::require(cont == t_cont, tag + ": contains() wrong");
    symrt::require(disj == t_disj, tag + ": is_disjoint_from() wrong");
    symrt::require(eq == t_eq, tag + ": operator== wrong");
    symrt::require(sc == (t_cont && !t_eq), tag + ": strictly_contains() wrong");
    Grid I(gr); I.intersection_assign(*H.gr);
    CgSet RI = R; for (auto& r : H.R.rows) RI.rows.push_back(r);
    check_grid(I, RI, n, tag + " intersection_assign", false);
    { IPoint w = fresh_gpoint(n); symrt::check(H.R.contains(w) == CgSet::from(H.gr->congruences(), n).contains(w), tag + ": const argument changed"); }
    break; }
  case 2: { // upper_bound_assign (join): exactly the grid generated by the generators of both arguments
    SymGrid H = grid_from_congruences("d", n, m, B, Bb, K);
    Grid J(gr); J.upper_bound_assign(*H.gr);
    Grid_Generator_System u;
    if (!gr.is_empty()) { Grid_Generator_System a = gr.grid_generators(); for (Grid_Generator_System::const_iterator g = a.begin(); g != a.end(); ++g) u.insert(*g); }
    if (!H.gr->is_empty()) { Grid_Generator_System a = H.gr->grid_generators(); for (Grid_Generator_System::const_iterator g = a.begin(); g != a.end(); ++g) u.insert(*g); }
    Lattice U = Lattice::from(u, n);
    symrt::Batch b;
    { IPoint x = fresh_gpoint(n); b.add(!((R.contains(x) || H.R.contains(x)) && !CgSet::from(J.congruences(), n).contains(x)), tag + ": join does not contain an argument"); }
    { IPoint x = fresh_gpoint(n); b.add(CgSet::from(J.congruences(), n).contains(x) == U.contains(x), tag + ": join is not the smallest grid containing the union"); }
    b.flush();
    symrt::require(J.OK(), tag + ": OK()");
    break; }
  case 3: { // difference_assign: contains the set difference, contained in the receiver, empty iff the difference is
    SymGrid H = grid_from_congruences("d", n, m, B, Bb, K);
    Grid D(gr); D.difference_assign(*H.gr);
    CgSet DS = CgSet::from(D.congruences(), n);
    symrt::Batch b;
    { IPoint x = fresh_gpoint(n); b.add(!(R.contains(x) && !H.R.contains(x) && !DS.contains(x)), tag + ": difference lost a point of the set difference"); }
    { IPoint x = fresh_gpoint(n); b.add(!(DS.contains(x) && !R.contains(x)), tag + ": difference not contained in the receiver"); }
    b.flush();
    { IPoint z = fresh_gpoint(n); bool nonempty_diff = symrt::possible(R.contains(z) && !H.R.contains(z));
      symrt::require(D.is_empty() == !nonempty_diff, tag + ": emptiness of the difference is wrong"); }
    symrt::require(D.OK(), tag + ": OK()");
    break; }
  case 4: { // copy construction / assignment keep the set, in every lazy state
    int st = symrt::choose("state", 3);
    if (st == 1) (void) gr.minimized_grid_generators(); else if (st == 2) (void) gr.is_empty();
    Grid c1(gr); Grid c2(n); c2 = gr;
    check_grid(c1, R, n, tag + " copy-constructed", false);
    check_grid(c2, R, n, tag + " assigned", false);
    break; }
  case 5: { // affine_image / affine_preimage, from every lazy state of the receiver
    { int st = symrt::choose("state", 4); if (st == 1) (void) gr.minimized_grid_generators(); else if (st == 2) (void) gr.grid_generators(); else if (st == 3) { (void) gr.grid_generators(); (void) gr.minimized_congruences(); } }
    unsigned v = symrt::choose("var", n);
    std::vector<mpz_class> ea; Linear_Expression le; for (unsigned j = 0; j < n; ++j) { ea.push_back(symrt::cinput(S("e", j), -B, B)); le += ea[j] * Variable(j); }
    mpz_class eb = symrt::cinput("eb", -B, B); le += eb;
    mpz_class d = symrt::flag("dneg") ? mpz_class(-1 - symrt::choose("dabs", 2)) : mpz_class(1 + symrt::choose("dabs", 2));
    mpq_class qd(d), qb(eb); std::vector<mpq_class> qa; for (auto& c : ea) qa.push_back(mpq_class(c));
    Grid img(gr); img.affine_image(Variable(v), le, d);
    if (!gr.is_empty()) {
      Lattice L = Lattice::from(gr.grid_generators(), n);
      auto mapv = [&](oracle::QVec& c, bool pt) { mpq_class s2 = pt ? qb : mpq_class(0); for (unsigned j = 0; j < n; ++j) s2 += qa[j] * c[j]; c[v] = s2 / qd; };
      mapv(L.p, true); for (auto& q : L.params) mapv(q, false); for (auto& q : L.lines) mapv(q, false);
      check_grid(img, L, n, tag + " affine_image", false);
    }
    else symrt::require(img.is_empty(), tag + ": image of the empty grid is not empty");
    Grid pre(gr); pre.affine_preimage(Variable(v), le, d);
    CgSet RP(n);
    for (auto& r : R.rows) { oracle::CgRow q = r; mpq_class av = r.a[v]; for (unsigned j = 0; j < n; ++j) q.a[j] = (j == v ? mpq_class(0) : r.a[j]) + av * qa[j] / qd; q.b = r.b + av * qb / qd; RP.rows.push_back(q); }
    check_grid(pre, RP, n, tag + " affine_preimage", false);
    break; }
  case 6: { // add_congruence after minimization (pending / up-to-date states)
    (void) gr.minimized_grid_generators();
    std::vector<mpz_class> a; Linear_Expression e; for (unsigned j = 0; j < n; ++j) { a.push_back(symrt::cinput(S("na", j), -B, B)); e += a[j] * Variable(j); }
    mpz_class b = symrt::cinput("nb", -Bb, Bb); e += b; mpz_class mod(symrt::choose("nmod", K + 1));
    gr.add_congruence((e %= 0) / mod);
    CgSet R2 = R; R2.add(a, b, mod);
    check_grid(gr, R2, n, tag + " add_congruence after minimization", false);
    break; }
  }
}
