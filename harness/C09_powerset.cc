// C09: powersets denote the union of their disjuncts and every operation respects it.
// Disjuncts are boxes with symbolic bounds (so empty, overlapping, adjacent and nested
// arrangements are all paths), as C polyhedra.
#include "poly_oracle.hh"
using namespace hc;
typedef Pointset_Powerset<C_Polyhedron> PS;

namespace {
struct SymPS { PS ps; std::vector<RefSet> parts; unsigned n; SymPS(unsigned n_) : ps(n_, EMPTY), n(n_) {}
  expr contains(const Point& x) const { expr f = bval(false); for (auto& r : parts) f = f || r.contains(x); return f; } };
RefSet sym_box(const std::string& pfx, unsigned n, long Bb, C_Polyhedron& ph) {
  RefSet R(n); ph = C_Polyhedron(n);
  for (unsigned j = 0; j < n; ++j) {
    mpz_class lo = symrt::input(pfx + S("lo", j), -Bb, Bb), hi = symrt::input(pfx + S("hi", j), -Bb, Bb);
    ph.add_constraint(Variable(j) >= lo); ph.add_constraint(Variable(j) <= hi);
    std::vector<expr> a(n, ival(0)); a[j] = ival(1); R.add(a, -term(lo), 1);
    std::vector<expr> c(n, ival(0)); c[j] = ival(-1); R.add(c, term(hi), 1);
  }
  return R;
}
SymPS make_ps(const std::string& pfx, unsigned n, unsigned k, long Bb) {
  SymPS s(n);
  for (unsigned i = 0; i < k; ++i) { C_Polyhedron ph(n); RefSet R = sym_box(S(pfx, i), n, Bb, ph); s.ps.add_disjunct(ph); s.parts.push_back(R); }
  return s;
}
expr reported(const PS& ps, const Point& x) {
  expr f = bval(false);
  for (PS::const_iterator i = ps.begin(); i != ps.end(); ++i) f = f || oracle::in_cs(i->pointset().constraints(), x);
  return f;
}
void same_union(const PS& ps, const SymPS& ref, const std::string& label) { Point x = oracle::fresh_point(ref.n); symrt::check(reported(ps, x) == ref.contains(x), label); }
}

SYMRT_HARNESS(C09_powerset) {
  unsigned n = symrt::param("n", 1), k = symrt::param("k", 2), k2 = symrt::param("k2", 1); long Bb = symrt::param("Bb", 2);
  int op = symrt::param("op", 0);
  SymPS A = make_ps("a", n, k, Bb);
  std::string tag = S("C09 op", op);
  switch (op) {
  case 0: { // reductions never change the union, never increase the size
    same_union(A.ps, A, tag + ": union after add_disjunct differs from the fed disjuncts");
    PS r(A.ps); unsigned before = r.size();
    int which = symrt::choose("which", 3);
    if (which == 0) r.omega_reduce(); else if (which == 1) r.pairwise_reduce(); else { r.omega_reduce(); r.pairwise_reduce(); }
    same_union(r, A, tag + ": a reduction changed the union");
    symrt::require(r.size() <= before, tag + ": a reduction increased the number of disjuncts");
    symrt::require(r.OK(), tag + ": OK()");
    if (which != 1) { // omega-reduced: no disjunct entails another
      for (PS::const_iterator i = r.begin(); i != r.end(); ++i) for (PS::const_iterator j = r.begin(); j != r.end(); ++j) if (i != j)
        symrt::require(!j->pointset().contains(i->pointset()), tag + ": omega_reduce left a redundant disjunct"); }
    break; }
  case 1: { // copies are unaffected by later changes to the original (copy-on-write)
    int when = symrt::choose("when", 2);
    if (when == 1) A.ps.omega_reduce();
    PS copy(A.ps); PS assigned(n, EMPTY); assigned = A.ps;
    int mut = symrt::choose("mut", 7);
    if (mut == 0) A.ps.add_constraint(Variable(0) >= 0);
    else if (mut == 1) A.ps.affine_image(Variable(0), Variable(0) + 1);
    else if (mut == 2) { if (A.ps.size() > 0) A.ps.drop_disjunct(A.ps.begin()); }
    else if (mut == 3) A.ps.add_disjunct(C_Polyhedron(n));
    else if (mut == 4) A.ps.pairwise_reduce();
    else if (mut == 5) A.ps.collapse();
    else { // disjuncts pushed by reference into another powerset, which is then collapsed
      PS acc(n, EMPTY); acc.upper_bound_assign(A.ps); C_Polyhedron extra(n); extra.add_constraint(Variable(0) == 7); acc.add_disjunct(extra); acc.collapse();
      same_union(A.ps, A, tag + ": a powerset changed when another one sharing its disjuncts was collapsed"); }
    same_union(copy, A, tag + ": a copy changed when the original was modified");
    same_union(assigned, A, tag + ": an assigned copy changed when the original was modified");
    symrt::require(copy.OK() && assigned.OK() && A.ps.OK(), tag + ": OK()");
    break; }
  case 2: case 3: case 4: { // meet / upper bound / difference act on the unions
    SymPS B = make_ps("b", n, k2, Bb);
    PS r(A.ps);
    if (symrt::flag("prereduce")) r.omega_reduce();
    if (op == 2) r.intersection_assign(B.ps); else if (op == 3) r.upper_bound_assign(B.ps); else r.difference_assign(B.ps);
    Point x = oracle::fresh_point(n);
    if (op == 4) {
      // closed disjuncts cannot express the exact difference: the result contains it and is contained in the receiver;
      // with NNC disjuncts (same data) the difference is exact.
      symrt::Batch bb; Point y = oracle::fresh_point(n);
      bb.add(!(A.contains(x) && !B.contains(x) && !reported(r, x)), tag + ": difference_assign lost a point of the set difference");
      bb.add(!(reported(r, y) && !A.contains(y)), tag + ": difference_assign is not contained in the receiver");
      bb.flush();
      typedef Pointset_Powerset<NNC_Polyhedron> PSN;
      PSN an(A.ps), bn(B.ps);
      an.difference_assign(bn);
      expr rep = bval(false); Point z = oracle::fresh_point(n);
      for (PSN::const_iterator i = an.begin(); i != an.end(); ++i) rep = rep || oracle::in_cs(i->pointset().constraints(), z);
      symrt::check(rep == (A.contains(z) && !B.contains(z)), tag + ": difference_assign on NNC disjuncts is not the exact set difference");
      same_union(B.ps, B, tag + ": const argument changed");
      break;
    }
    expr want = op == 2 ? (A.contains(x) && B.contains(x)) : (A.contains(x) || B.contains(x));
    symrt::check(reported(r, x) == want, tag + (op == 2 ? ": intersection_assign" : ": upper_bound_assign") + " is not the set operation on the unions");
    same_union(B.ps, B, tag + ": const argument changed");
    symrt::require(r.OK(), tag + ": OK()");
    break; }
  case 5: { // geometric covering / equality are exact; entailment-based containment implies geometric containment
    SymPS B = make_ps("b", n, k2, Bb);
    bool cov = A.ps.geometrically_covers(B.ps), eq = A.ps.geometrically_equals(B.ps);
    bool ent = A.ps.definitely_entails(B.ps), con = A.ps.contains(B.ps);
    Point x = oracle::fresh_point(n);
    symrt::Batch b;
    if (cov) b.add(!(B.contains(x) && !A.contains(x)), tag + ": geometrically_covers() but a point of the argument is not covered");
    if (eq) b.add(B.contains(x) == A.contains(x), tag + ": geometrically_equals() but the unions differ");
    if (con) b.add(!(B.contains(x) && !A.contains(x)), tag + ": contains() but not geometrically");
    if (ent) b.add(!(A.contains(x) && !B.contains(x)), tag + ": definitely_entails() but not geometrically");
    b.flush();
    // exactness in the negative direction: the uncovered region of B is a finite union of boxes with one missing strip;
    // on these inputs it is non-empty iff some vertex-shifted witness exists; decided by the solver per path:
    if (!cov) { // not covered => for every input on this path some point of B is outside A.  Negation: exists input with B subset of A.
      // B subset of A  (unions of boxes) is characterised, for k <= 2 and dimension 1, by interval arithmetic; in general we leave the
      // universally quantified side to the solver through a quantified formula over the point only.
      z3::context& c = symrt::ctx(); z3::expr_vector bound(c); Point y; for (unsigned j = 0; j < n; ++j) { y.push_back(c.real_const(S("cy", j).c_str())); bound.push_back(y[j]); }
      symrt::check(z3::exists(bound, B.contains(y) && !A.contains(y)), tag + ": !geometrically_covers() but the argument is covered");
    }
    symrt::require(eq == (cov && B.ps.geometrically_covers(A.ps)), tag + ": geometrically_equals() inconsistent with mutual covering");
    break; }
  case 6: { // collapse: a single disjunct containing the union, equal to the poly-hull of the disjuncts
    PS r(A.ps); r.collapse();
    symrt::require(r.size() <= 1, tag + ": collapse left several disjuncts");
    Point x = oracle::fresh_point(n);
    symrt::check(!(A.contains(x) && !reported(r, x)), tag + ": collapse lost a point of the union");
    if (r.size() == 1) { C_Polyhedron hull(n, EMPTY); for (PS::const_iterator i = A.ps.begin(); i != A.ps.end(); ++i) hull.upper_bound_assign(i->pointset());
      Point y = oracle::fresh_point(n); symrt::check(reported(r, y) == oracle::in_cs(hull.constraints(), y), tag + ": collapse is not the base-level upper bound"); }
    break; }
  case 7: { // add_constraint / affine_preimage / unconstrain / add_space_dimensions act disjunct-wise on the union
    int which = symrt::choose("which", 4);
    mpz_class c = symrt::input("c", -Bb, Bb);
    PS r(A.ps); if (symrt::flag("prereduce")) r.pairwise_reduce();
    Point x = oracle::fresh_point(which == 3 ? n + 1 : n);
    if (which == 0) { r.add_constraint(Variable(0) <= c); symrt::check(reported(r, x) == (A.contains(x) && x[0] <= rterm(c)), tag + ": add_constraint"); }
    else if (which == 1) { r.affine_preimage(Variable(0), Variable(0) + c); Point y = x; y[0] = x[0] + rterm(c); symrt::check(reported(r, x) == A.contains(y), tag + ": affine_preimage"); }
    else if (which == 2) { r.affine_image(Variable(0), 2 * Variable(0) + c); Point y = x; y[0] = (x[0] - rterm(c)) / rval(2); symrt::check(reported(r, x) == A.contains(y), tag + ": affine_image"); }
    else { r.add_space_dimensions_and_embed(1); Point y(x.begin(), x.begin() + n); symrt::check(reported(r, x) == A.contains(y), tag + ": add_space_dimensions_and_embed"); }
    symrt::require(r.OK(), tag + ": OK()");
    break; }
  case 8: { // simplify_using_context_assign: the meet with the context is preserved, the size does not grow
    SymPS B = make_ps("b", n, k2, Bb);
    PS r(A.ps); unsigned before = r.size();
    bool nonempty = r.simplify_using_context_assign(B.ps);
    Point x = oracle::fresh_point(n);
    if (nonempty) symrt::check((reported(r, x) && B.contains(x)) == (A.contains(x) && B.contains(x)), tag + ": simplify_using_context_assign changed the meet with the context");
    else symrt::check(!(A.contains(x) && B.contains(x)), tag + ": simplify_using_context_assign returned false but the meet is not empty");
    symrt::require(r.size() <= before, tag + ": simplify_using_context_assign increased the number of disjuncts");
    break; }
  }
}
