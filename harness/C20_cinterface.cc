// C20: the C interface is a faithful, exception-tight wrapper of the C++ library.
// The real interfaces/C sources (generic part + the generated Polyhedron file) are compiled against the
// symbolic GMP; handles are created through the C API from symbolic coefficients.
#include "poly_oracle.hh"
#include "ppl_c.h"
using namespace hc;

namespace {
int g_handler_calls = 0; int g_handler_code = 0;
void handler(enum ppl_enum_error_code code, const char*) { ++g_handler_calls; g_handler_code = code; }
void c_coeff(ppl_Coefficient_t* pc, const mpz_class& v) { mpz_t z; mpz_init_set(z, v.get_mpz_t()); ppl_new_Coefficient_from_mpz_t(pc, z); mpz_clear(z); }
// builds  a.x + b (>=, ==) 0  through the C API
ppl_Constraint_t c_constraint(const SymRow& r) {
  ppl_Linear_Expression_t le; ppl_new_Linear_Expression_with_dimension(&le, r.a.size());
  for (unsigned j = 0; j < r.a.size(); ++j) { ppl_Coefficient_t c; c_coeff(&c, r.a[j]); ppl_Linear_Expression_add_to_coefficient(le, j, c); ppl_delete_Coefficient(c); }
  { ppl_Coefficient_t c; c_coeff(&c, r.b); ppl_Linear_Expression_add_to_inhomogeneous(le, c); ppl_delete_Coefficient(c); }
  ppl_Constraint_t con; ppl_new_Constraint(&con, le, r.kind == 0 ? PPL_CONSTRAINT_TYPE_EQUAL : r.kind == 1 ? PPL_CONSTRAINT_TYPE_GREATER_OR_EQUAL : PPL_CONSTRAINT_TYPE_GREATER_THAN);
  ppl_delete_Linear_Expression(le);
  return con;
}
const C_Polyhedron& cxx(ppl_const_Polyhedron_t h) { return *reinterpret_cast<const C_Polyhedron*>(h); }
expr set_of(ppl_const_Polyhedron_t h, const Point& x) { return oracle::in_cs(cxx(h).constraints(), x); }
}

SYMRT_HARNESS(C20_polyhedron) {
  unsigned n = symrt::param("n", 2), m = symrt::param("m", 2); long Bb = symrt::param("Bb", 2);
  int op = symrt::param("op", 0);
  ppl_initialize(); ppl_set_error_handler(handler); g_handler_calls = 0;
  ppl_Polyhedron_t ph, qh; ppl_new_C_Polyhedron_from_space_dimension(&ph, n, 0); ppl_new_C_Polyhedron_from_space_dimension(&qh, n, 0);
  RefSet RP(n), RQ(n); C_Polyhedron pref(n), qref(n);
  for (unsigned i = 0; i < m; ++i) { SymRow r = sym_row(S("p", i), n, 1, Bb, 2); ppl_Constraint_t c = c_constraint(r); int rc = ppl_Polyhedron_add_constraint(ph, c); symrt::require(rc == 0, "C20: add_constraint failed"); ppl_delete_Constraint(c); ref_add(RP, r); pref.add_constraint(row_constraint(r)); }
  { SymRow r = sym_row("q0", n, 1, Bb, 2); ppl_Constraint_t c = c_constraint(r); ppl_Polyhedron_add_constraint(qh, c); ppl_delete_Constraint(c); ref_add(RQ, r); qref.add_constraint(row_constraint(r)); }
  switch (op) {
  case 0: { // predicates: positive / zero return values carry the C++ answers
    symrt::Batch b; Point x = oracle::fresh_point(n);
    b.add(set_of(ph, x) == RP.contains(x), "C20: the handle does not denote the fed constraints");
    b.flush();
    symrt::require((ppl_Polyhedron_is_empty(ph) > 0) == pref.is_empty() && ppl_Polyhedron_is_empty(ph) >= 0, "C20: ppl_Polyhedron_is_empty differs from the C++ answer");
    symrt::require((ppl_Polyhedron_is_universe(ph) > 0) == pref.is_universe(), "C20: ppl_Polyhedron_is_universe differs");
    symrt::require((ppl_Polyhedron_is_bounded(ph) > 0) == pref.is_bounded(), "C20: ppl_Polyhedron_is_bounded differs");
    symrt::require((ppl_Polyhedron_contains_Polyhedron(ph, qh) > 0) == pref.contains(qref), "C20: ppl_Polyhedron_contains_Polyhedron differs");
    symrt::require((ppl_Polyhedron_is_disjoint_from_Polyhedron(ph, qh) > 0) == pref.is_disjoint_from(qref), "C20: ppl_Polyhedron_is_disjoint_from_Polyhedron differs");
    symrt::require((ppl_Polyhedron_equals_Polyhedron(ph, qh) > 0) == (pref == qref), "C20: ppl_Polyhedron_equals_Polyhedron differs");
    symrt::require(ppl_Polyhedron_OK(ph) > 0, "C20: ppl_Polyhedron_OK");
    ppl_dimension_type d = 99; ppl_Polyhedron_space_dimension(ph, &d); symrt::require(d == n, "C20: space dimension");
    ppl_Polyhedron_affine_dimension(ph, &d); symrt::require(d == pref.affine_dimension(), "C20: affine dimension differs");
    { Point y = oracle::fresh_point(n); symrt::check(set_of(qh, y) == RQ.contains(y), "C20: a const handle was modified by a predicate"); }
    break; }
  case 1: { // transformers through handles equal the C++ results; const handles unchanged
    int which = symrt::choose("which", 4);
    if (which == 0) { ppl_Polyhedron_intersection_assign(ph, qh); pref.intersection_assign(qref); }
    else if (which == 1) { ppl_Polyhedron_upper_bound_assign(ph, qh); pref.upper_bound_assign(qref); }
    else if (which == 2) { ppl_Polyhedron_poly_difference_assign(ph, qh); pref.poly_difference_assign(qref); }
    else { ppl_Linear_Expression_t le; ppl_new_Linear_Expression_with_dimension(&le, n); ppl_Coefficient_t c, d; mpz_class k = symrt::input("k", -2, 2); c_coeff(&c, k); c_coeff(&d, mpz_class(1));
           ppl_Linear_Expression_add_to_coefficient(le, 0, c); ppl_Linear_Expression_add_to_inhomogeneous(le, d); ppl_Polyhedron_affine_image(ph, 1 % n, le, d);
           pref.affine_image(Variable(1 % n), k * Variable(0) + 1, 1); ppl_delete_Linear_Expression(le); ppl_delete_Coefficient(c); ppl_delete_Coefficient(d); }
    symrt::Batch b; Point x = oracle::fresh_point(n), y = oracle::fresh_point(n);
    b.add(set_of(ph, x) == oracle::in_cs(pref.constraints(), x), "C20: the result through the handle differs from the C++ result");
    b.add(set_of(qh, y) == RQ.contains(y), "C20: a const handle was modified");
    b.flush();
    // the constraint system obtained through the C getter describes the same set
    ppl_const_Constraint_System_t cs; ppl_Polyhedron_get_constraints(ph, &cs);
    { Point z = oracle::fresh_point(n); symrt::check(oracle::in_cs(*reinterpret_cast<const Constraint_System*>(cs), z) == set_of(ph, z), "C20: ppl_Polyhedron_get_constraints differs from the object"); }
    break; }
  case 2: { // exceptions never cross the boundary: documented negative codes, handler invoked once, handles usable
    int which = symrt::choose("bad", 5); int rc = 0; int expect = PPL_ERROR_INVALID_ARGUMENT;
    g_handler_calls = 0;
    if (which == 0) { ppl_Polyhedron_t big; ppl_new_C_Polyhedron_from_space_dimension(&big, n + 1, 0); rc = ppl_Polyhedron_intersection_assign(ph, big); ppl_delete_Polyhedron(big); }
    else if (which == 1) { ppl_Linear_Expression_t le; ppl_new_Linear_Expression_with_dimension(&le, n); ppl_Coefficient_t z; c_coeff(&z, mpz_class(0)); rc = ppl_Polyhedron_affine_image(ph, 0, le, z); ppl_delete_Linear_Expression(le); ppl_delete_Coefficient(z); }
    else if (which == 2) { SymRow r; for (unsigned j = 0; j < n; ++j) r.a.push_back(mpz_class(1)); r.b = 0; r.kind = 2; ppl_Constraint_t c = c_constraint(r); rc = ppl_Polyhedron_add_constraint(ph, c); ppl_delete_Constraint(c); }   // strict into a C polyhedron
    else if (which == 3) { ppl_Linear_Expression_t le; ppl_new_Linear_Expression_with_dimension(&le, n + 2); ppl_Coefficient_t o; c_coeff(&o, mpz_class(1)); ppl_Linear_Expression_add_to_coefficient(le, n + 1, o);
                           ppl_Coefficient_t sn, sd; c_coeff(&sn, mpz_class(0)); c_coeff(&sd, mpz_class(1)); int mx; rc = ppl_Polyhedron_maximize(ph, le, sn, sd, &mx); ppl_delete_Linear_Expression(le); ppl_delete_Coefficient(o); ppl_delete_Coefficient(sn); ppl_delete_Coefficient(sd); }
    else { ppl_MIP_Problem_t mip; ppl_new_MIP_Problem_from_space_dimension(&mip, 1); ppl_Linear_Expression_t le; ppl_new_Linear_Expression_with_dimension(&le, 1); ppl_Coefficient_t o, m1; c_coeff(&o, mpz_class(1)); c_coeff(&m1, mpz_class(-1));
           ppl_Linear_Expression_add_to_coefficient(le, 0, o); ppl_Constraint_t c1; ppl_new_Constraint(&c1, le, PPL_CONSTRAINT_TYPE_GREATER_OR_EQUAL);   // x >= 0
           ppl_Linear_Expression_t l2; ppl_new_Linear_Expression_with_dimension(&l2, 1); ppl_Linear_Expression_add_to_coefficient(l2, 0, m1); ppl_Linear_Expression_add_to_inhomogeneous(l2, m1); ppl_Constraint_t c2; ppl_new_Constraint(&c2, l2, PPL_CONSTRAINT_TYPE_GREATER_OR_EQUAL); // -x - 1 >= 0
           ppl_MIP_Problem_add_constraint(mip, c1); ppl_MIP_Problem_add_constraint(mip, c2);
           ppl_const_Generator_t g; rc = ppl_MIP_Problem_optimizing_point(mip, &g); expect = PPL_ERROR_DOMAIN_ERROR;
           ppl_delete_MIP_Problem(mip); ppl_delete_Constraint(c1); ppl_delete_Constraint(c2); ppl_delete_Linear_Expression(le); ppl_delete_Linear_Expression(l2); ppl_delete_Coefficient(o); ppl_delete_Coefficient(m1); }
    symrt::require(rc == expect, S("C20 bad call ", which) + S(": returned ", rc) + S(" instead of the documented code ", expect));
    symrt::require(g_handler_calls == 1 && g_handler_code == expect, S("C20 bad call ", which) + ": the error handler was not invoked exactly once with that code");
    { Point x = oracle::fresh_point(n); symrt::check(set_of(ph, x) == RP.contains(x), S("C20 bad call ", which) + ": the receiver handle changed"); }
    symrt::require(ppl_Polyhedron_OK(ph) > 0 && ppl_Polyhedron_is_empty(ph) >= 0, "C20: the handle is not usable after the error");
    break; }
  case 3: { // deterministic timeout: reported as PPL_TIMEOUT_EXCEPTION after the handler, the handle stays usable
    static const unsigned long wt[6] = { 1, 30, 120, 500, 3000, 1000000 }; unsigned long w = wt[symrt::choose("weight", 6)];   // threshold crossing point chosen by the explorer
    g_handler_calls = 0;
    symrt::require(ppl_set_deterministic_timeout(w, 0) == 0, "C20: ppl_set_deterministic_timeout failed");
    int rc = ppl_Polyhedron_intersection_assign(ph, qh);
    int rc2 = rc < 0 ? rc : ppl_Polyhedron_is_empty(ph);
    int rc3 = rc2 < 0 ? rc2 : ppl_Polyhedron_is_bounded(ph);
    int bad = rc < 0 ? rc : rc2 < 0 ? rc2 : rc3 < 0 ? rc3 : 0;
    ppl_reset_deterministic_timeout();
    if (bad < 0) { symrt::require(bad == PPL_TIMEOUT_EXCEPTION, S("C20: a deterministic timeout was reported as code ", bad));
                   symrt::require(g_handler_calls == 1 && g_handler_code == PPL_TIMEOUT_EXCEPTION, "C20: the error handler was not invoked exactly once with PPL_TIMEOUT_EXCEPTION"); symrt::note("timeout=1"); }
    else { symrt::require(g_handler_calls == 0, "C20: the error handler ran without an error"); symrt::note("timeout=0"); }
    // the abandoned computation left the handle usable and denoting a set the interrupted calls may have produced
    symrt::require(ppl_Polyhedron_OK(ph) > 0, "C20: the handle is not usable after the timeout");
    Point x = oracle::fresh_point(n);
    expr now = set_of(ph, x);
    if (rc < 0) symrt::check(now == RP.contains(x) || now == (RP.contains(x) && RQ.contains(x)), "C20: after a timeout the handle denotes neither the old nor the new value");
    else symrt::check(now == (RP.contains(x) && RQ.contains(x)), "C20: after a timeout in a query the handle changed its value");
    // no timeout is pending any more: the same calls now succeed
    symrt::require(ppl_Polyhedron_is_empty(ph) >= 0 && ppl_Polyhedron_is_bounded(ph) >= 0, "C20: a timeout was reported after ppl_reset_deterministic_timeout");
    break; }
  case 4: { // optimisation entry points on an NNC polyhedron built through the interface: values, attainment flag and point equal the C++ answers
    ppl_Polyhedron_t nh; ppl_new_NNC_Polyhedron_from_space_dimension(&nh, n, 0); NNC_Polyhedron nref(n);
    for (unsigned i = 0; i < m; ++i) { SymRow r = sym_row(S("s", i), n, 1, Bb, 3); ppl_Constraint_t c = c_constraint(r); symrt::require(ppl_Polyhedron_add_constraint(nh, c) == 0, "C20: add_constraint (NNC) failed"); ppl_delete_Constraint(c); nref.add_constraint(row_constraint(r)); }
    std::vector<mpz_class> oc; Linear_Expression obj; ppl_Linear_Expression_t le; ppl_new_Linear_Expression_with_dimension(&le, n);
    for (unsigned j = 0; j < n; ++j) { oc.push_back(symrt::input(S("o", j), -1, 1)); obj += oc[j] * Variable(j); ppl_Coefficient_t c; c_coeff(&c, oc[j]); ppl_Linear_Expression_add_to_coefficient(le, j, c); ppl_delete_Coefficient(c); }
    bool maxi = symrt::flag("max"), withp = symrt::flag("with_point");
    ppl_Coefficient_t cn, cd; c_coeff(&cn, mpz_class(7)); c_coeff(&cd, mpz_class(7)); int att = 7; ppl_Generator_t g; ppl_new_Generator_zero_dim_point(&g);
    int rc = withp ? (maxi ? ppl_Polyhedron_maximize_with_point(nh, le, cn, cd, &att, g) : ppl_Polyhedron_minimize_with_point(nh, le, cn, cd, &att, g))
                   : (maxi ? ppl_Polyhedron_maximize(nh, le, cn, cd, &att) : ppl_Polyhedron_minimize(nh, le, cn, cd, &att));
    Coefficient rn, rd; bool ratt = false; Generator rg = point();
    bool rok = maxi ? nref.maximize(obj, rn, rd, ratt, rg) : nref.minimize(obj, rn, rd, ratt, rg);
    symrt::require(rc >= 0 && (rc > 0) == rok, "C20: the return value of the optimisation entry point differs from the C++ answer");
    if (rok) {
      const Coefficient& gn = *reinterpret_cast<const Coefficient*>(cn); const Coefficient& gd = *reinterpret_cast<const Coefficient*>(cd);
      symrt::check(term(gn) * term(rd) == term(rn) * term(gd), "C20: the optimum value through the interface differs from the C++ value");
      symrt::require((att != 0) == ratt && (att == 0 || att == 1), "C20: the attainment flag through the interface differs from the C++ answer");
      if (withp) { const Generator& cg = *reinterpret_cast<const Generator*>(g); symrt::require(cg.type() == rg.type() && cg.is_equivalent_to(rg), "C20: the optimising point through the interface differs from the C++ point"); }
    }
    ppl_delete_Generator(g); ppl_delete_Coefficient(cn); ppl_delete_Coefficient(cd); ppl_delete_Linear_Expression(le); ppl_delete_Polyhedron(nh);
    break; }
  }
  ppl_delete_Polyhedron(ph); ppl_delete_Polyhedron(qh);
  symrt::poll_abort();
}

// Memory exhaustion inside a wrapped call (concrete data; the symbolic quantity is the failing allocation):
// PPL_ERROR_OUT_OF_MEMORY is returned, the handler runs once, nothing escapes, handles stay usable and
// every object created through the interface is released exactly once.
SYMRT_HARNESS(C20_faults) {
  unsigned n = 2; long B = symrt::param("B", 1); int op = symrt::param("op", 0); unsigned kinds = symrt::param("kinds", 3);
  std::vector<mpz_class> a; for (int i = 0; i < 4; ++i) a.push_back(symrt::cinput(S("a", i), -B, B));
  ppl_initialize(); ppl_set_error_handler(handler);
  auto row = [&](mpz_class x, mpz_class y, mpz_class b) { SymRow r; r.a.push_back(x); r.a.push_back(y); r.b = b; r.kind = 1; return r; };
  auto make = [&](ppl_Polyhedron_t* ph, ppl_Polyhedron_t* qh) {
    ppl_new_C_Polyhedron_from_space_dimension(ph, n, 0); ppl_new_C_Polyhedron_from_space_dimension(qh, n, 0);
    SymRow rs[4] = { row(a[0], a[1], 2), row(-1, 0, 3), row(a[2], a[3], 1), row(0, -1, 2) };
    for (int i = 0; i < 4; ++i) { ppl_Constraint_t c = c_constraint(rs[i]); ppl_Polyhedron_add_constraint(i < 2 ? *ph : *qh, c); ppl_delete_Constraint(c); } };
  auto body = [&](ppl_Polyhedron_t ph, ppl_Polyhedron_t qh) -> int {
    int rc = 0;
    switch (op) {
    case 0: rc = ppl_Polyhedron_intersection_assign(ph, qh); if (rc >= 0) rc = ppl_Polyhedron_is_empty(ph); break;
    case 1: rc = ppl_Polyhedron_upper_bound_assign(ph, qh); break;
    case 2: { ppl_Polyhedron_t cp = 0; rc = ppl_new_C_Polyhedron_from_C_Polyhedron(&cp, ph); if (rc >= 0) { rc = ppl_Polyhedron_is_bounded(cp); ppl_delete_Polyhedron(cp); } break; }
    case 3: { ppl_const_Generator_System_t gs; rc = ppl_Polyhedron_get_minimized_generators(ph, &gs); break; }
    case 4: { ppl_Linear_Expression_t le = 0; rc = ppl_new_Linear_Expression_with_dimension(&le, n); if (rc < 0) break;
              ppl_Coefficient_t c = 0; mpz_t z; mpz_init_set_si(z, 3); rc = ppl_new_Coefficient_from_mpz_t(&c, z); mpz_clear(z);
              if (rc >= 0) { rc = ppl_Linear_Expression_add_to_coefficient(le, 1, c); ppl_Constraint_t k = 0; int r2 = rc < 0 ? rc : ppl_new_Constraint(&k, le, PPL_CONSTRAINT_TYPE_GREATER_OR_EQUAL);
                             if (r2 >= 0) { r2 = ppl_Polyhedron_add_constraint(ph, k); ppl_delete_Constraint(k); } rc = r2; ppl_delete_Coefficient(c); }
              ppl_delete_Linear_Expression(le); break; }
    case 5: { ppl_MIP_Problem_t mip = 0; ppl_const_Constraint_System_t cs; ppl_Polyhedron_get_constraints(ph, &cs); ppl_Linear_Expression_t le = 0; rc = ppl_new_Linear_Expression_with_dimension(&le, n); if (rc < 0) break;
              rc = ppl_new_MIP_Problem(&mip, n, cs, le, PPL_OPTIMIZATION_MODE_MAXIMIZATION); if (rc >= 0) { rc = ppl_MIP_Problem_solve(mip); ppl_delete_MIP_Problem(mip); } ppl_delete_Linear_Expression(le); break; }
    }
    return rc; };
  { ppl_Polyhedron_t ph, qh; make(&ph, &qh); (void) body(ph, qh); (void) ppl_Polyhedron_OK(ph); (void) ppl_Polyhedron_OK(qh); (void) ppl_Polyhedron_intersection_assign(ph, qh); (void) ppl_Polyhedron_is_empty(ph); ppl_delete_Polyhedron(ph); ppl_delete_Polyhedron(qh); }   // warm-up: fills the library's pools
  long base = symrt::live_blocks();
  symrt::faults_ledger(true);
  int rc; bool fired;
  {
    ppl_Polyhedron_t ph, qh; make(&ph, &qh);
    g_handler_calls = 0;
    symrt::faults_arm(kinds);
    rc = body(ph, qh);
    symrt::faults_disarm();
    fired = symrt::fault_fired();
    if (fired) { symrt::require(rc == PPL_ERROR_OUT_OF_MEMORY, S("C20 faults op ", op) + S(": an allocation failure was reported as code ", rc));
                 symrt::require(g_handler_calls == 1 && g_handler_code == PPL_ERROR_OUT_OF_MEMORY, S("C20 faults op ", op) + ": the error handler was not invoked exactly once"); }
    else symrt::require(rc >= 0 && g_handler_calls == 0, S("C20 faults op ", op) + ": an error was reported without a failure");
    symrt::require(ppl_Polyhedron_OK(ph) > 0 && ppl_Polyhedron_OK(qh) > 0, S("C20 faults op ", op) + ": a handle is not usable after the failure");
    symrt::require(ppl_Polyhedron_intersection_assign(ph, qh) == 0 && ppl_Polyhedron_is_empty(ph) >= 0, S("C20 faults op ", op) + ": the library is not usable after the failure");
    ppl_delete_Polyhedron(ph); ppl_delete_Polyhedron(qh);
  }
  symrt::faults_ledger(false);
  symrt::note(fired ? "fault=1" : "fault=0");
  symrt::require(symrt::live_blocks() == base, S("C20 faults op ", op) + ": objects created through the interface were not released exactly once (ledger unbalanced)");
  symrt::poll_abort();
}
