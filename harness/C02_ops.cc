// C02: polyhedron operations compute exactly the documented point set.
// One shape per operator (param op); operands are built from symbolic rows.
#include "poly_oracle.hh"
using namespace hc;
using oracle::Gens; using oracle::Gen; using oracle::CsSet;

namespace {
struct SymPoly { std::unique_ptr<Polyhedron> ph; RefSet R; SymPoly(unsigned n) : R(n) {} };
RefSet refset_of(const Constraint_System& cs, unsigned n) {
  RefSet R(n);
  for (Constraint_System::const_iterator c = cs.begin(); c != cs.end(); ++c) { std::vector<expr> a; for (unsigned j = 0; j < n; ++j) { Coefficient k = j < c->space_dimension() ? c->coefficient(Variable(j)) : Coefficient(0); a.push_back(term(k)); }
    Coefficient b = c->inhomogeneous_term(); R.add(a, term(b), c->is_equality() ? 0 : c->is_strict_inequality() ? 2 : 1); }
  return R;
}
SymPoly make_poly(const std::string& pfx, unsigned n, unsigned m, long B, long Bb, bool nnc, bool touch) {
  SymPoly sp(n);
  if (symrt::param("gen", 0)) {
    // operand given by generators: a point with a symbolic divisor, then m-1 more generators (point or ray);
    // its reference set is the constraint description it reports before the operation (C01 checks that description).
    Generator_System gs;
    { Linear_Expression e; for (unsigned j = 0; j < n; ++j) e += symrt::input(pfx + S("p", j), -B, B) * Variable(j); gs.insert(point(e, symrt::input(pfx + "pd", 1, 2))); }
    for (unsigned i = 1; i < m; ++i) { Linear_Expression e; expr nz = bval(false); for (unsigned j = 0; j < n; ++j) { mpz_class c = symrt::input(pfx + S("g", i, j), -B, B); nz = nz || term(c) != ival(0); e += c * Variable(j); }
      if (symrt::flag(pfx + S("ray", i))) { symrt::assume(nz); gs.insert(ray(e)); } else gs.insert(point(e, symrt::input(pfx + S("gd", i), 1, 2))); }
    sp.ph.reset(nnc ? static_cast<Polyhedron*>(new NNC_Polyhedron(gs)) : static_cast<Polyhedron*>(new C_Polyhedron(gs)));
    if (touch && symrt::flag(pfx + "cons")) (void) sp.ph->minimized_constraints();
    Polyhedron* copy = nnc ? static_cast<Polyhedron*>(new NNC_Polyhedron(static_cast<const NNC_Polyhedron&>(*sp.ph))) : static_cast<Polyhedron*>(new C_Polyhedron(static_cast<const C_Polyhedron&>(*sp.ph)));
    sp.R = refset_of(copy->constraints(), n); delete copy;
    return sp;
  }
  sp.ph.reset(nnc ? static_cast<Polyhedron*>(new NNC_Polyhedron(n)) : static_cast<Polyhedron*>(new C_Polyhedron(n)));
  for (unsigned i = 0; i < m; ++i) { SymRow r = sym_row(S(pfx, i), n, B, Bb, nnc ? 3 : 2); sp.ph->add_constraint(row_constraint(r)); ref_add(sp.R, r); }
  if (touch && symrt::flag(pfx + "gens")) (void) sp.ph->minimized_generators();   // vary which description is up to date
  return sp;
}
void vs_gens(const Polyhedron& res, const Gens& D, const std::string& tag) {
  unsigned n = D.n;
  CsSet rs(res.constraints(), n);
  symrt::Batch b;
  b.add(D.inside([&](const Point& p) { return rs.contains(p); }, [&](const Point& p) { return rs.closure_contains(p); }, [&](const Point& d) { return rs.recedes(d); }),
        tag + ": result does not contain the documented set");
  Point x = oracle::fresh_point(n);
  b.add(!(rs.contains(x) && D.not_in(x)), tag + ": result is larger than the documented set");
  // the result's own generators agree with its constraints
  Gens G = Gens::from(res.generators(), n);
  b.add(G.inside([&](const Point& p) { return rs.contains(p); }, [&](const Point& p) { return rs.closure_contains(p); }, [&](const Point& d) { return rs.recedes(d); }),
        tag + ": result generators outside result constraints");
  Point z = oracle::fresh_point(n);
  b.add(!(rs.contains(z) && G.not_in(z)), tag + ": result constraints outside result generators");
  b.flush();
  symrt::require(res.OK(), tag + ": OK() of the result");
}
template <typename F>
void vs_formula(const Polyhedron& res, unsigned n, F def, const std::string& tag) {
  CsSet rs(res.constraints(), n);
  symrt::Batch b;
  Point x = oracle::fresh_point(n);
  b.add(def(x) == rs.contains(x), tag + ": result differs from the documented set");
  Gens G = Gens::from(res.generators(), n);
  b.add(G.inside([&](const Point& p) { return rs.contains(p); }, [&](const Point& p) { return rs.closure_contains(p); }, [&](const Point& d) { return rs.recedes(d); }),
        tag + ": result generators outside result constraints");
  Point z = oracle::fresh_point(n);
  b.add(!(rs.contains(z) && G.not_in(z)), tag + ": result constraints outside result generators");
  b.flush();
  symrt::require(res.OK(), tag + ": OK() of the result");
}
void unchanged(const Polyhedron& q, const RefSet& R, const std::string& tag) {
  Point x = oracle::fresh_point(R.n);
  symrt::check(R.contains(x) == oracle::in_cs(q.constraints(), x), tag + ": const argument changed");
}
struct SymExpr { std::vector<mpz_class> a; mpz_class b; std::vector<expr> ta; expr tb;
  SymExpr() : tb(rval(0)) {}
  expr at(const Point& x) const { expr s = tb; for (unsigned j = 0; j < ta.size() && j < x.size(); ++j) s = s + ta[j] * x[j]; return s; }
  expr hom(const Point& x) const { expr s = rval(0); for (unsigned j = 0; j < ta.size() && j < x.size(); ++j) s = s + ta[j] * x[j]; return s; }
  Linear_Expression le() const { Linear_Expression e; for (unsigned j = 0; j < a.size(); ++j) e += a[j] * Variable(j); e += b; return e; } };
SymExpr sym_expr(const std::string& pfx, unsigned n, long B) {
  SymExpr e; for (unsigned j = 0; j < n; ++j) { e.a.push_back(symrt::input(S(pfx, j), -B, B)); e.ta.push_back(rterm(e.a.back())); }
  e.b = symrt::input(pfx + "b", -B, B); e.tb = rterm(e.b); return e;
}
mpz_class sym_denominator(const std::string& name, long B) { mpz_class d = symrt::input(name, -B, B); symrt::assume(term(d) != ival(0)); return d; }
Point subst(const Point& x, unsigned v, const expr& t) { Point y = x; y[v] = t; return y; }
// image of a generator list under x_v := e(x)/d
Gens image(const Gens& G, unsigned v, const SymExpr& e, const expr& td) {
  Gens r(G.n);
  for (auto& g : G.g) { Point c = g.c; c[v] = (g.kind <= 1 ? e.at(g.c) : e.hom(g.c)) / td; r.g.push_back(Gen(g.kind, c)); }
  return r;
}
Point unit(unsigned n, unsigned v, long s) { Point p; for (unsigned j = 0; j < n; ++j) p.push_back(rval(j == v ? s : 0)); return p; }
Relation_Symbol relsym(int k) { static const Relation_Symbol t[5] = { EQUAL, LESS_OR_EQUAL, GREATER_OR_EQUAL, LESS_THAN, GREATER_THAN }; return t[k]; }
expr relf(int k, const expr& l, const expr& r) { return k == 0 ? l == r : k == 1 ? l <= r : k == 2 ? l >= r : k == 3 ? l < r : l > r; }
}

SYMRT_HARNESS(C02_op) {
  unsigned n = symrt::param("n", 2), m = symrt::param("m", 1), mq = symrt::param("mq", 1);
  long B = symrt::param("B", 1), Bb = symrt::param("Bb", B);
  bool nnc = symrt::param("nnc", 0) != 0;
  int op = symrt::param("op", 0);
  bool touch = symrt::param("touch", 0) != 0;
  SymPoly P = make_poly("p", n, m, B, Bb, nnc, touch);
  Polyhedron& ph = *P.ph;
  const RefSet& RP = P.R;
  std::string tag = S("C02 op", op);
  switch (op) {
  case 0: { // intersection_assign
    SymPoly Q = make_poly("q", n, mq, B, Bb, nnc, touch);
    ph.intersection_assign(*Q.ph);
    vs_formula(ph, n, [&](const Point& x) { return RP.contains(x) && Q.R.contains(x); }, tag + " intersection_assign");
    unchanged(*Q.ph, Q.R, tag);
    break; }
  case 1: { // poly_hull_assign (upper_bound_assign)
    SymPoly Q = make_poly("q", n, mq, B, Bb, nnc, touch);
    Gens D = Gens::from(ph.generators(), n); D.append(Gens::from(Q.ph->generators(), n));
    ph.poly_hull_assign(*Q.ph);
    vs_gens(ph, D, tag + " poly_hull_assign");
    { CsSet rs(ph.constraints(), n); Point x = oracle::fresh_point(n);
      symrt::check(!((RP.contains(x) || Q.R.contains(x)) && !rs.contains(x)), tag + " poly_hull_assign: an argument is not contained in the hull"); }
    unchanged(*Q.ph, Q.R, tag);
    break; }
  case 2: { // affine_image
    unsigned v = symrt::choose("var", n);
    SymExpr e = sym_expr("e", n, B); mpz_class d = sym_denominator("den", symrt::param("denB", 2));
    Gens D = image(Gens::from(ph.generators(), n), v, e, rterm(d));
    ph.affine_image(Variable(v), e.le(), d);
    vs_gens(ph, D, tag + " affine_image");
    { // independent of the reported generators: every point of the operand maps into the result
      CsSet rs(ph.constraints(), n); Point x = oracle::fresh_point(n);
      symrt::check(!(RP.contains(x) && !rs.contains(subst(x, v, e.at(x) / rterm(d)))), tag + " affine_image: image of a point of the operand is missing"); }
    break; }
  case 3: { // affine_preimage
    unsigned v = symrt::choose("var", n);
    SymExpr e = sym_expr("e", n, B); mpz_class d = sym_denominator("den", symrt::param("denB", 2));
    ph.affine_preimage(Variable(v), e.le(), d);
    vs_formula(ph, n, [&](const Point& x) { return RP.contains(subst(x, v, e.at(x) / rterm(d))); }, tag + " affine_preimage");
    break; }
  case 4: { // generalized_affine_image(var, relsym, expr, den)
    unsigned v = symrt::choose("var", n);
    int rk = symrt::choose("rel", nnc ? 5 : 3);
    SymExpr e = sym_expr("e", n, B); mpz_class d = sym_denominator("den", symrt::param("denB", 2));
    Gens G0 = Gens::from(ph.generators(), n);
    Gens D = image(G0, v, e, rterm(d));
    if (rk == 1 || rk == 3) D.g.push_back(Gen(2, unit(n, v, -1)));
    if (rk == 2 || rk == 4) D.g.push_back(Gen(2, unit(n, v, 1)));
    if (rk >= 3) { // strict: images of points become closure points, shifted copies are the points
      Gens D2(n);
      for (auto& g : D.g) { if (g.kind == 0) { D2.g.push_back(Gen(1, g.c)); Point c = g.c; c[v] = c[v] + rval(rk == 3 ? -1 : 1); D2.g.push_back(Gen(0, c)); } else D2.g.push_back(g); }
      D = D2; }
    ph.generalized_affine_image(Variable(v), relsym(rk), e.le(), d);
    vs_gens(ph, D, tag + " generalized_affine_image");
    { CsSet rs(ph.constraints(), n); Point x = oracle::fresh_point(n); expr t = symrt::fresh_real("t");
      symrt::check(!(RP.contains(x) && relf(rk, t, e.at(x) / rterm(d)) && !rs.contains(subst(x, v, t))), tag + " generalized_affine_image: a related point is missing"); }
    break; }
  case 5: { // time_elapse_assign (closed polyhedra)
    SymPoly Q = make_poly("q", n, mq, B, Bb, nnc, touch);
    Gens D = Gens::from(ph.generators(), n); Gens GQ = Gens::from(Q.ph->generators(), n);
    bool pe = ph.is_empty(), qe = Q.ph->is_empty();
    if (pe || qe) D = Gens(n); else for (auto& g : GQ.g) D.g.push_back(Gen(g.kind <= 1 ? 2 : g.kind, g.c));
    ph.time_elapse_assign(*Q.ph);
    vs_gens(ph, D, tag + " time_elapse_assign");
    { CsSet rs(ph.constraints(), n); Point x = oracle::fresh_point(n), y = oracle::fresh_point(n); expr t = symrt::fresh_real("t");
      Point z; for (unsigned j = 0; j < n; ++j) z.push_back(x[j] + t * y[j]);
      symrt::check(!(RP.contains(x) && Q.R.contains(y) && t >= rval(0) && !rs.contains(z)), tag + " time_elapse_assign: p + t*q is missing"); }
    unchanged(*Q.ph, Q.R, tag);
    break; }
  case 6: { // unconstrain(var)
    unsigned v = symrt::choose("var", n);
    Gens D = Gens::from(ph.generators(), n); if (D.has_point()) D.g.push_back(Gen(3, unit(n, v, 1)));
    ph.unconstrain(Variable(v));
    vs_gens(ph, D, tag + " unconstrain");
    { CsSet rs(ph.constraints(), n); Point x = oracle::fresh_point(n); expr t = symrt::fresh_real("t");
      symrt::check(!(RP.contains(x) && !rs.contains(subst(x, v, t))), tag + " unconstrain: a cylindrified point is missing"); }
    break; }
  case 7: { // topological_closure_assign
    bool e = ph.is_empty();
    ph.topological_closure_assign();
    vs_formula(ph, n, [&](const Point& x) { return e ? bval(false) : RP.closure_contains(x); }, tag + " topological_closure_assign");
    break; }
  case 8: { // poly_difference_assign: contains the set difference, is contained in the first argument
    SymPoly Q = make_poly("q", n, mq, B, Bb, nnc, touch);
    ph.poly_difference_assign(*Q.ph);
    CsSet rs(ph.constraints(), n);
    symrt::Batch b; Point x = oracle::fresh_point(n), y = oracle::fresh_point(n);
    b.add(!(RP.contains(x) && !Q.R.contains(x) && !rs.contains(x)), tag + " poly_difference_assign: a point of the set difference is missing");
    b.add(!(rs.contains(y) && !RP.contains(y)), tag + " poly_difference_assign: result not contained in the first argument");
    b.flush();
    // smallest: if the difference is empty the result must be empty
    { Point z = oracle::fresh_point(n); if (!ph.is_empty() && !symrt::possible(RP.contains(z) && !Q.R.contains(z))) symrt::require(false, tag + " poly_difference_assign: non-empty result for an empty set difference"); }
    unchanged(*Q.ph, Q.R, tag);
    symrt::require(ph.OK(), tag + ": OK()");
    break; }
  case 9: { // add_space_dimensions_and_embed / _and_project
    bool proj = symrt::flag("project");
    if (proj) ph.add_space_dimensions_and_project(1); else ph.add_space_dimensions_and_embed(1);
    symrt::require(ph.space_dimension() == n + 1, tag + ": space dimension");
    vs_formula(ph, n + 1, [&](const Point& x) { return RP.contains(x) && (proj ? x[n] == rval(0) : bval(true)); }, tag + (proj ? " add_space_dimensions_and_project" : " add_space_dimensions_and_embed"));
    break; }
  case 10: { // remove_space_dimensions / remove_higher_space_dimensions
    unsigned v = symrt::choose("var", n);
    Gens G0 = Gens::from(ph.generators(), n), D(n - 1);
    for (auto& g : G0.g) { Point c; for (unsigned j = 0; j < n; ++j) if (j != v) c.push_back(g.c[j]); D.g.push_back(Gen(g.kind, c)); }
    Variables_Set vs; vs.insert(Variable(v));
    if (v == n - 1 && symrt::flag("higher")) ph.remove_higher_space_dimensions(n - 1); else ph.remove_space_dimensions(vs);
    symrt::require(ph.space_dimension() == n - 1, tag + ": space dimension");
    if (n > 1) vs_gens(ph, D, tag + " remove_space_dimensions");
    else symrt::require(ph.is_empty() == !G0.has_point(), tag + " remove_space_dimensions to dimension 0");
    break; }
  case 11: { // expand_space_dimension(var, 1)
    unsigned v = symrt::choose("var", n);
    ph.expand_space_dimension(Variable(v), 1);
    vs_formula(ph, n + 1, [&](const Point& x) { Point a(x.begin(), x.begin() + n); Point b = a; b[v] = x[n]; return RP.contains(a) && RP.contains(b); }, tag + " expand_space_dimension");
    break; }
  case 12: { // fold_space_dimensions({v}, dest)
    if (n < 2) break;
    unsigned v = symrt::choose("var", n), w = symrt::choose("dest", n - 1); if (w >= v) ++w;
    Gens G0 = Gens::from(ph.generators(), n), D(n - 1);
    for (auto& g : G0.g) { Point c, c2; for (unsigned j = 0; j < n; ++j) if (j != v) { c.push_back(g.c[j]); c2.push_back(j == w ? g.c[v] : g.c[j]); }
      D.g.push_back(Gen(g.kind, c)); D.g.push_back(Gen(g.kind, c2)); }
    Variables_Set vs; vs.insert(Variable(v));
    ph.fold_space_dimensions(vs, Variable(w));
    vs_gens(ph, D, tag + " fold_space_dimensions");
    break; }
  case 13: { // concatenate_assign
    SymPoly Q = make_poly("q", n, mq, B, Bb, nnc, touch);
    ph.concatenate_assign(*Q.ph);
    vs_formula(ph, 2 * n, [&](const Point& x) { Point a(x.begin(), x.begin() + n), b(x.begin() + n, x.end()); return RP.contains(a) && Q.R.contains(b); }, tag + " concatenate_assign");
    unchanged(*Q.ph, Q.R, tag);
    break; }
  case 14: { // map_space_dimensions (partial injective maps on 2 dimensions)
    if (n != 2) break;
    int k = symrt::choose("map", 4);   // 0: swap, 1: keep 0 only, 2: keep 1 only (as 0), 3: identity
    Partial_Function pf;
    if (k == 0) { pf.insert(0, 1); pf.insert(1, 0); } else if (k == 1) pf.insert(0, 0); else if (k == 2) pf.insert(1, 0); else { pf.insert(0, 0); pf.insert(1, 1); }
    Gens G0 = Gens::from(ph.generators(), n), D(k == 1 || k == 2 ? 1 : 2);
    for (auto& g : G0.g) { Point c; if (k == 0) { c.push_back(g.c[1]); c.push_back(g.c[0]); } else if (k == 1) c.push_back(g.c[0]); else if (k == 2) c.push_back(g.c[1]); else c = g.c; D.g.push_back(Gen(g.kind, c)); }
    ph.map_space_dimensions(pf);
    vs_gens(ph, D, tag + " map_space_dimensions");
    break; }
  case 15: { // poly_hull_assign_if_exact
    SymPoly Q = make_poly("q", n, mq, B, Bb, nnc, touch);
    bool r = nnc ? static_cast<NNC_Polyhedron&>(ph).poly_hull_assign_if_exact(static_cast<const NNC_Polyhedron&>(*Q.ph)) : static_cast<C_Polyhedron&>(ph).poly_hull_assign_if_exact(static_cast<const C_Polyhedron&>(*Q.ph));
    symrt::note(r ? "hull_if_exact=true" : "hull_if_exact=false");
    if (r) vs_formula(ph, n, [&](const Point& x) { return RP.contains(x) || Q.R.contains(x); }, tag + " poly_hull_assign_if_exact(true)");
    else {
      vs_formula(ph, n, [&](const Point& x) { return RP.contains(x); }, tag + " poly_hull_assign_if_exact(false): receiver");
      // the union must not be convex: some convex combination of a point of P and a point of Q leaves the union
      z3::context& c = symrt::ctx();
      expr l = c.real_const("hl"); z3::expr_vector bound(c); Point x, y, z;
      for (unsigned j = 0; j < n; ++j) { x.push_back(c.real_const(S("hx", j).c_str())); y.push_back(c.real_const(S("hy", j).c_str())); bound.push_back(x[j]); bound.push_back(y[j]); z.push_back(l * x[j] + (rval(1) - l) * y[j]); }
      bound.push_back(l);
      symrt::check(z3::exists(bound, RP.contains(x) && Q.R.contains(y) && l > rval(0) && l < rval(1) && !RP.contains(z) && !Q.R.contains(z)),
                   tag + " poly_hull_assign_if_exact(false) but the union is convex");
    }
    unchanged(*Q.ph, Q.R, tag);
    break; }
  case 16: { // simplify_using_context_assign
    SymPoly Q = make_poly("q", n, mq, B, Bb, nnc, touch);
    bool r = ph.simplify_using_context_assign(*Q.ph);
    CsSet rs(ph.constraints(), n); Point x = oracle::fresh_point(n);
    if (r) symrt::check((rs.contains(x) && Q.R.contains(x)) == (RP.contains(x) && Q.R.contains(x)), tag + " simplify_using_context_assign: meet with the context changed");
    else symrt::check(!(RP.contains(x) && Q.R.contains(x)), tag + " simplify_using_context_assign returned false but the meet is not empty");
    unchanged(*Q.ph, Q.R, tag);
    symrt::require(ph.OK(), tag + ": OK()");
    break; }
  case 17: { // bounded_affine_image(var, lb, ub, den)
    unsigned v = symrt::choose("var", n);
    SymExpr lb = sym_expr("l", n, B), ub = sym_expr("u", n, B); mpz_class d = sym_denominator("den", symrt::param("denB", 2));
    ph.bounded_affine_image(Variable(v), lb.le(), ub.le(), d);
    CsSet rs(ph.constraints(), n); expr td = rterm(d);
    symrt::Batch b;
    Point x = oracle::fresh_point(n); expr t = symrt::fresh_real("t");
    b.add(!(RP.contains(x) && lb.at(x) / td <= t && t <= ub.at(x) / td && !rs.contains(subst(x, v, t))), tag + " bounded_affine_image: a related point is missing");
    { Point y = oracle::fresh_point(n); std::vector<oracle::Row1> rows; oracle::rows_along(RP, y, v, rows);
      expr sd = z3::ite(td > rval(0), rval(1), rval(-1));
      expr lrest = lb.tb, urest = ub.tb; for (unsigned j = 0; j < n; ++j) if (j != v) { lrest = lrest + lb.ta[j] * y[j]; urest = urest + ub.ta[j] * y[j]; }
      rows.push_back(oracle::Row1(-sd * lb.ta[v], sd * (td * y[v] - lrest), 1));     // lb(y0)/d <= y_v
      rows.push_back(oracle::Row1(sd * ub.ta[v], sd * (urest - td * y[v]), 1));      // y_v <= ub(y0)/d
      b.add(z3::implies(rs.contains(y), oracle::exists1(rows)), tag + " bounded_affine_image: result contains an unrelated point"); }
    b.flush();
    symrt::require(ph.OK(), tag + ": OK()");
    break; }
  case 18: { // generalized_affine_preimage(var, relsym, expr, den)
    unsigned v = symrt::choose("var", n);
    int rk = symrt::choose("rel", nnc ? 5 : 3);
    SymExpr e = sym_expr("e", n, B); mpz_class d = sym_denominator("den", symrt::param("denB", 2));
    ph.generalized_affine_preimage(Variable(v), relsym(rk), e.le(), d);
    CsSet rs(ph.constraints(), n); expr td = rterm(d);
    symrt::Batch b;
    // x' in P, x equal to x' off v, x'_v rel e(x)/d  ==>  x in result
    Point x = oracle::fresh_point(n); expr t = symrt::fresh_real("t");
    b.add(!(RP.contains(subst(x, v, t)) && relf(rk, t, e.at(x) / td) && !rs.contains(x)), tag + " generalized_affine_preimage: a point of the preimage is missing");
    { Point y = oracle::fresh_point(n); std::vector<oracle::Row1> rows; oracle::rows_along(RP, y, v, rows);
      // s rel e(y)/d  (e does not see s: the preimage relates the NEW value s of v to the expression at the OLD point y)
      expr ey = e.at(y) / td;
      if (rk == 0) rows.push_back(oracle::Row1(rval(1), -ey, 0));
      else if (rk == 1 || rk == 3) rows.push_back(oracle::Row1(rval(-1), ey, rk == 1 ? 1 : 2));
      else rows.push_back(oracle::Row1(rval(1), -ey, rk == 2 ? 1 : 2));
      b.add(z3::implies(rs.contains(y), oracle::exists1(rows)), tag + " generalized_affine_preimage: result contains a point outside the preimage"); }
    b.flush();
    symrt::require(ph.OK(), tag + ": OK()");
    break; }
  case 19: { // conversion between topologies
    if (nnc) { C_Polyhedron cp(static_cast<const NNC_Polyhedron&>(ph)); bool e = ph.is_empty();
      vs_formula(cp, n, [&](const Point& x) { return e ? bval(false) : RP.closure_contains(x); }, tag + " C_Polyhedron(NNC_Polyhedron)"); }
    else { NNC_Polyhedron np(static_cast<const C_Polyhedron&>(ph));
      vs_formula(np, n, [&](const Point& x) { return RP.contains(x); }, tag + " NNC_Polyhedron(C_Polyhedron)"); }
    break; }
  case 21: { // positive_time_elapse_assign: { p + t q : p in P, q in Q, t > 0 }
    SymPoly Q = make_poly("q", n, mq, B, Bb, nnc, touch);
    Gens GP = Gens::from(ph.generators(), n), GQ = Gens::from(Q.ph->generators(), n);
    Gens D(n);
    if (GP.has_point() && GQ.has_point()) {
      for (auto& g : GP.g) D.g.push_back(Gen(g.kind == 0 ? 1 : g.kind, g.c));                 // P itself is only in the closure
      for (auto& g : GQ.g) D.g.push_back(Gen(g.kind <= 1 ? 2 : g.kind, g.c));                 // directions of Q
      for (auto& p : GP.g) if (p.kind == 0) for (auto& q : GQ.g) if (q.kind == 0) { Point c; for (unsigned j = 0; j < n; ++j) c.push_back(p.c[j] + q.c[j]); D.g.push_back(Gen(0, c)); }
    }
    if (nnc) static_cast<NNC_Polyhedron&>(ph).positive_time_elapse_assign(static_cast<const NNC_Polyhedron&>(*Q.ph));
    else static_cast<C_Polyhedron&>(ph).positive_time_elapse_assign(static_cast<const C_Polyhedron&>(*Q.ph));
    { CsSet rs(ph.constraints(), n); Point x = oracle::fresh_point(n), y = oracle::fresh_point(n); expr t = symrt::fresh_real("t");
      Point z; for (unsigned j = 0; j < n; ++j) z.push_back(x[j] + t * y[j]);
      symrt::check(!(RP.contains(x) && Q.R.contains(y) && t > rval(0) && !rs.contains(z)), tag + " positive_time_elapse_assign: p + t*q (t > 0) is missing"); }
    if (nnc) vs_gens(ph, D, tag + " positive_time_elapse_assign");
    else { // closed polyhedra: the result is the smallest closed polyhedron containing the set, i.e. the closure of D
      for (auto& g : D.g) if (g.kind == 1) g.kind = 0;
      vs_gens(ph, D, tag + " positive_time_elapse_assign (closed)"); }
    unchanged(*Q.ph, Q.R, tag);
    break; }
  case 22: { // generalized_affine_image(lhs, relsym, rhs) / generalized_affine_preimage(lhs, relsym, rhs)
    int rk = symrt::choose("rel", nnc ? 5 : 3);
    SymExpr l = sym_expr("l", n, B), r = sym_expr("r", n, B);
    bool pre = symrt::flag("pre");
    Polyhedron* orig = nnc ? static_cast<Polyhedron*>(new NNC_Polyhedron(static_cast<const NNC_Polyhedron&>(ph))) : static_cast<Polyhedron*>(new C_Polyhedron(static_cast<const C_Polyhedron&>(ph)));
    std::unique_ptr<Polyhedron> og(orig);
    if (pre) ph.generalized_affine_preimage(l.le(), relsym(rk), r.le()); else ph.generalized_affine_image(l.le(), relsym(rk), r.le());
    CsSet rs(ph.constraints(), n);
    // documented relation: the variables occurring in lhs may change arbitrarily subject to lhs(x') rel rhs(x) (image)
    // resp. lhs(x) rel rhs(x') (preimage); the other variables keep their value.  Soundness side (quantifier-free):
    Point x = oracle::fresh_point(n), y = oracle::fresh_point(n);
    expr same = bval(true); bool lhs_has_var = false;
    for (unsigned j = 0; j < n; ++j) same = same && z3::implies(l.ta[j] == rval(0), x[j] == y[j]);
    if (!pre) symrt::check(!(RP.contains(x) && same && relf(rk, l.at(y), r.at(x)) && !rs.contains(y)), tag + " generalized_affine_image(lhs,rel,rhs): a related point is missing");
    else symrt::check(!(RP.contains(y) && same && relf(rk, l.at(y), r.at(x)) && !rs.contains(x)), tag + " generalized_affine_preimage(lhs,rel,rhs): a point of the preimage is missing");
    (void) lhs_has_var;
    symrt::require(ph.OK(), tag + ": OK()");
    break; }
  case 20: { // refine_with_constraint / add_constraints / refine_with_congruence (equalities only constrain polyhedra)
    SymRow r = sym_row("r", n, B, Bb, 3);
    int how = symrt::choose("how", 3);
    RefSet RR = RP;
    if (how == 0) { ph.refine_with_constraint(row_constraint(r)); SymRow r2 = r; if (!nnc && r.kind == 2) r2.kind = 1; ref_add(RR, r2); }
    else if (how == 1) { if (!nnc && r.kind == 2) r.kind = 1; Constraint_System cs; cs.insert(row_constraint(r)); ph.add_constraints(cs); ref_add(RR, r); }
    else { int mod = symrt::choose("mod", 3); Congruence cg = (row_expr(r) %= 0) / mpz_class(mod); ph.refine_with_congruence(cg); if (mod == 0) { SymRow r2 = r; r2.kind = 0; ref_add(RR, r2); } }
    vs_formula(ph, n, [&](const Point& x) { return RR.contains(x); }, tag + " refine/add");
    break; }
  }
}
