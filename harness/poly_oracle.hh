// The "one point set behind every query" oracle for C/NNC polyhedra:
// compares every description and query of ph with a reference set R.
#ifndef POLY_ORACLE_HH
#define POLY_ORACLE_HH
#include "common.hh"

namespace hc {

// Descriptions of ph denote exactly R.
inline void check_descriptions(const Polyhedron& ph, const RefSet& R, const std::string& tag, bool minimized_too = true) {
  symrt::Batch B_;
  unsigned n = R.n;
  {
    Generator_System gs = ph.generators();
    B_.add(oracle::gs_inside(gs, R), tag + ": generators() inside the set");
    Point x = oracle::fresh_point(n);
    B_.add(!(R.contains(x) && oracle::not_in_gs(gs, x)), tag + ": set inside generators()");
    Constraint_System cs = ph.constraints();
    Point x2 = oracle::fresh_point(n);
    B_.add(R.contains(x2) == oracle::in_cs(cs, x2), tag + ": constraints() denote the set");
  }
  if (minimized_too) {
    Generator_System gs = ph.minimized_generators();
    B_.add(oracle::gs_inside(gs, R), tag + ": minimized_generators() inside the set");
    Point x = oracle::fresh_point(n);
    B_.add(!(R.contains(x) && oracle::not_in_gs(gs, x)), tag + ": set inside minimized_generators()");
    Constraint_System cs = ph.minimized_constraints();
    Point x2 = oracle::fresh_point(n);
    B_.add(R.contains(x2) == oracle::in_cs(cs, x2), tag + ": minimized_constraints() denote the set");
  }
  B_.flush();
}

// value of a linear expression at a generator (not divided): e.g  (homogeneous part only if !with_b)
inline expr expr_at(const std::vector<expr>& ea, const expr& eb, const Generator& g, unsigned n, bool with_b) {
  expr s = rval(0);
  for (unsigned j = 0; j < n && j < g.space_dimension(); ++j) { Coefficient c = g.coefficient(Variable(j)); s = s + ea[j] * rterm(c); }
  if (with_b) { Coefficient d = g.divisor(); s = s + eb * rterm(d); }
  return s;
}

// Simple Boolean queries against R.  Requires the descriptions to have been checked
// (the existential directions use the reported generators as witnesses).
struct Answers { bool empty, univ, bounded, closed; };
// The Boolean queries, asked in the object's current lazy state (before any other observer).
inline Answers grab_answers(const Polyhedron& ph) { Answers a; a.univ = ph.is_universe(); a.bounded = ph.is_bounded(); a.closed = ph.is_topologically_closed(); a.empty = ph.is_empty(); return a; }
inline void check_bool_queries(const Polyhedron& ph, const RefSet& R, const std::string& tag, const Answers* pre = 0) {
  symrt::Batch B_;
  unsigned n = R.n;
  Answers ans = pre ? *pre : grab_answers(ph);
  Generator_System gs = ph.generators();
  bool empty = ans.empty;
  symrt::note(std::string("is_empty=") + (empty ? "1" : "0"));
  if (empty) { Point x = oracle::fresh_point(n); B_.add(!R.contains(x), tag + ": is_empty() but the set has a point"); }
  else symrt::require(oracle::has_point(gs), tag + ": !is_empty() but generators() has no point");
  bool univ = ans.univ;
  if (univ) { Point x = oracle::fresh_point(n); B_.add(R.contains(x), tag + ": is_universe() but a point is missing"); }
  else {
    // some fed row must be violable
    expr viol = bval(false);
    for (auto& r : R.rows) { expr nz = bval(false); for (auto& a : r.a) nz = nz || a != rval(0);
      viol = viol || nz || (r.kind == 0 ? r.b != rval(0) : r.kind == 1 ? r.b < rval(0) : r.b <= rval(0)); }
    B_.add(viol, tag + ": !is_universe() but the set is the whole space");
  }
  bool bounded = ans.bounded;
  if (bounded) {
    if (!empty) { Point d = oracle::fresh_point(n, "d"); expr nz = bval(false); for (auto& e : d) nz = nz || e != rval(0);
      B_.add(!(nz && R.recedes(d)), tag + ": is_bounded() but the set has a recession direction"); }
  }
  else {
    bool has_dir = false;
    for (Generator_System::const_iterator g = gs.begin(); g != gs.end(); ++g) if (g->is_ray() || g->is_line()) has_dir = true;
    symrt::require(!empty && has_dir, tag + ": !is_bounded() but no ray or line reported");
  }
  bool closed = ans.closed;
  if (closed) {
    if (!empty) { Point y = oracle::fresh_point(n); B_.add(!(R.closure_contains(y) && !R.contains(y)), tag + ": is_topologically_closed() but the set is not closed"); }
  }
  else {
    // witness: a reported closure point that is not in the set
    Generator_System mgs = ph.minimized_generators();
    expr w = bval(false);
    for (Generator_System::const_iterator g = mgs.begin(); g != mgs.end(); ++g) if (g->is_closure_point()) { Coefficient d = g->divisor(); w = w || !R.contains_scaled(oracle::coords(*g, n), rterm(d), false); }
    B_.add(w, tag + ": !is_topologically_closed() but no closure point lies outside the set");
  }
  B_.flush();
}

// maximize / minimize of a symbolic linear expression.
inline void check_optima(const Polyhedron& ph, const RefSet& R, const std::vector<mpz_class>& ea, const mpz_class& eb, const std::string& tag) {
  symrt::Batch B_;
  unsigned n = R.n;
  Linear_Expression le; for (unsigned j = 0; j < n; ++j) le += ea[j] * Variable(j); le += eb;
  std::vector<expr> ta; for (auto& c : ea) ta.push_back(rterm(c)); expr tb = rterm(eb);
  Generator_System gs = ph.generators();
  bool empty = ph.is_empty();
  for (int dir = 0; dir < 2; ++dir) {
    const char* nm = dir == 0 ? "maximize" : "minimize";
    Coefficient num, den; bool attained; Generator g = point();
    bool ok = dir == 0 ? ph.maximize(le, num, den, attained, g) : ph.minimize(le, num, den, attained, g);
    bool b1 = dir == 0 ? ph.bounds_from_above(le) : ph.bounds_from_below(le);
    expr sgn = dir == 0 ? rval(1) : rval(-1);
    if (!empty) symrt::require(ok == b1, tag + ": " + nm + " and bounds_from_* disagree");
    if (!ok) {
      // unbounded or empty: witness among the reported rays/lines
      expr w = bval(empty);
      for (Generator_System::const_iterator r = gs.begin(); r != gs.end(); ++r) {
        if (r->is_ray()) w = w || sgn * expr_at(ta, tb, *r, n, false) > rval(0);
        if (r->is_line()) w = w || expr_at(ta, tb, *r, n, false) != rval(0);
      }
      B_.add(w, tag + ": " + nm + " says unbounded but no direction improves the objective");
      continue;
    }
    symrt::require(!empty, tag + ": " + nm + " succeeded on an empty polyhedron");
    expr tn = rterm(num), td = rterm(den);
    B_.add(td > rval(0), tag + ": " + nm + " denominator not positive");
    Point x = oracle::fresh_point(n);
    expr ex = tb; for (unsigned j = 0; j < n; ++j) ex = ex + ta[j] * x[j];
    if (attained) B_.add(!(R.contains(x) && sgn * (ex * td - tn) > rval(0)), tag + ": " + nm + " value is not a bound");
    else B_.add(!(R.contains(x) && sgn * (ex * td - tn) >= rval(0)), tag + ": " + nm + " reported as not attained but a point attains or exceeds it");
    // witness generator: in the closure, attains the value; if attained, in the set
    Coefficient gd = g.divisor(); expr tgd = rterm(gd);
    Point gc = oracle::coords(g, n);
    B_.add(tgd > rval(0) && R.contains_scaled(gc, tgd, !attained), tag + ": " + nm + " witness not in the set");
    B_.add(expr_at(ta, tb, g, n, true) * td == tn * tgd, tag + ": " + nm + " witness does not attain the reported value");
    if (attained) symrt::require(g.is_point(), tag + ": " + nm + " attained but witness is not a point");
  }
  B_.flush();
}

// relation_with(Constraint): every reported bit must be true of R; for C polyhedra
// and non-strict/equality constraints the documentation promises the bits are exact.
inline void check_relation_with_constraint(const Polyhedron& ph, const RefSet& R, const SymRow& c, const std::string& tag) {
  symrt::Batch B_;
  unsigned n = R.n;
  Constraint con = row_constraint(c);
  Poly_Con_Relation rel = ph.relation_with(con);
  std::vector<expr> ta; for (auto& a : c.a) ta.push_back(rterm(a)); expr tb = rterm(c.b);
  auto val = [&](const Point& x) { expr s = tb; for (unsigned j = 0; j < n; ++j) s = s + ta[j] * x[j]; return s; };
  auto sat = [&](const Point& x) { expr v = val(x); return c.kind == 0 ? v == rval(0) : c.kind == 1 ? v >= rval(0) : v > rval(0); };
  if (rel.implies(Poly_Con_Relation::is_included())) { Point x = oracle::fresh_point(n); B_.add(!(R.contains(x) && !sat(x)), tag + ": relation_with(c) is_included but a point violates c"); }
  if (rel.implies(Poly_Con_Relation::is_disjoint())) { Point x = oracle::fresh_point(n); B_.add(!(R.contains(x) && sat(x)), tag + ": relation_with(c) is_disjoint but a point satisfies c"); }
  if (rel.implies(Poly_Con_Relation::saturates())) { Point x = oracle::fresh_point(n); B_.add(!(R.contains(x) && val(x) != rval(0)), tag + ": relation_with(c) saturates but a point is off the hyperplane"); }
  if (rel.implies(Poly_Con_Relation::strictly_intersects())) {
    // both sides must be inhabited: witnesses among the generators
    Generator_System gs = ph.generators();
    expr in_w = bval(false), out_w = bval(false);
    for (Generator_System::const_iterator g = gs.begin(); g != gs.end(); ++g) {
      if (g->is_point() || g->is_closure_point()) {
        expr v = expr_at(ta, tb, *g, n, true);
        // a (closure) point strictly inside / outside the open half-space gives nearby points of the set
        out_w = out_w || (c.kind == 0 ? v != rval(0) : v < rval(0)) || ((c.kind == 2 && g->is_point()) ? v == rval(0) : bval(false));
        in_w = in_w || (c.kind == 0 ? bval(false) : v > rval(0)) || ((c.kind == 1 && g->is_point()) ? v == rval(0) : bval(false));
      }
      else {
        expr v = expr_at(ta, tb, *g, n, false);
        if (g->is_line()) { out_w = out_w || v != rval(0); in_w = in_w || v != rval(0); }
        else { out_w = out_w || (c.kind == 0 ? v != rval(0) : v < rval(0)); in_w = in_w || (c.kind == 0 ? bval(false) : v > rval(0)); }
      }
    }
    if (c.kind != 0) B_.add(in_w, tag + ": relation_with(c) strictly_intersects but no generator witnesses a point satisfying c");
    B_.add(out_w, tag + ": relation_with(c) strictly_intersects but no generator witnesses a point violating c");
  }
  // exactness (documented for polyhedra): a missing bit means its formula is false.
  if (!ph.is_empty()) {
    Generator_System gs = ph.generators();
    if (!rel.implies(Poly_Con_Relation::is_included())) {
      expr w = bval(false);
      for (Generator_System::const_iterator g = gs.begin(); g != gs.end(); ++g) {
        if (g->is_point()) { expr v = expr_at(ta, tb, *g, n, true); w = w || (c.kind == 0 ? v != rval(0) : c.kind == 1 ? v < rval(0) : v <= rval(0)); }
        else if (g->is_closure_point()) { expr v = expr_at(ta, tb, *g, n, true); w = w || (c.kind == 0 ? v != rval(0) : v < rval(0)); }
        else { expr v = expr_at(ta, tb, *g, n, false); w = w || (g->is_line() || c.kind == 0 ? v != rval(0) : v < rval(0)); }
      }
      if (ph.is_topologically_closed() || c.kind != 2)
        B_.add(w, tag + ": relation_with(c) lacks is_included but every generator satisfies c");
    }
  }
  B_.flush();
}

// relation_with(Generator): subsumes <=> generator is in the set (points) / recession cone (rays, lines).
inline void check_relation_with_generator(const Polyhedron& ph, const RefSet& R, const std::vector<mpz_class>& gc, const mpz_class& gd, int gkind, const std::string& tag) {
  symrt::Batch B_;
  unsigned n = R.n;
  Linear_Expression le; for (unsigned j = 0; j < n; ++j) le += gc[j] * Variable(j);
  Generator g = gkind == 0 ? point(le, gd) : gkind == 1 ? ray(le) : gkind == 2 ? line(le) : closure_point(le, gd);
  Poly_Gen_Relation rel = ph.relation_with(g);
  bool sub = rel.implies(Poly_Gen_Relation::subsumes());
  Point c; for (auto& e : gc) c.push_back(rterm(e));
  bool empty = ph.is_empty();
  expr inside = bval(false);
  if (gkind == 0 || gkind == 3) inside = R.contains_scaled(c, rterm(gd), gkind == 3);
  else if (gkind == 1) inside = R.recedes(c);
  else { Point mc; for (auto& e : c) mc.push_back(-e); inside = R.recedes(c) && R.recedes(mc); }
  if (empty) { symrt::require(!sub, tag + ": empty polyhedron subsumes a generator"); return; }
  B_.add(sub ? inside : !inside, tag + ": relation_with(generator) " + (sub ? "subsumes but generator not in the set" : "does not subsume but generator is in the set"));
  B_.flush();
}

// relation_with(Congruence  e = 0 mod m).
inline void check_relation_with_congruence(const Polyhedron& ph, const RefSet& R, const std::vector<mpz_class>& ea, const mpz_class& eb, const mpz_class& m, const std::string& tag) {
  symrt::Batch B_;
  unsigned n = R.n;
  Linear_Expression le; for (unsigned j = 0; j < n; ++j) le += ea[j] * Variable(j); le += eb;
  Congruence cg = (le %= 0) / m;
  Poly_Con_Relation rel = ph.relation_with(cg);
  std::vector<expr> ta; for (auto& a : ea) ta.push_back(rterm(a)); expr tb = rterm(eb), tm = rterm(m);
  auto val = [&](const Point& x) { expr s = tb; for (unsigned j = 0; j < n; ++j) s = s + ta[j] * x[j]; return s; };
  auto sat = [&](const Point& x) { expr v = val(x); return z3::ite(tm == rval(0), v == rval(0), oracle::isint(v / tm)); };
  if (rel.implies(Poly_Con_Relation::is_included())) { Point x = oracle::fresh_point(n); B_.add(!(R.contains(x) && !sat(x)), tag + ": relation_with(cg) is_included but a point violates the congruence"); }
  if (rel.implies(Poly_Con_Relation::is_disjoint())) { Point x = oracle::fresh_point(n); B_.add(!(R.contains(x) && sat(x)), tag + ": relation_with(cg) is_disjoint but a point satisfies the congruence"); }
  if (rel.implies(Poly_Con_Relation::saturates())) { Point x = oracle::fresh_point(n); B_.add(!(R.contains(x) && !sat(x)), tag + ": relation_with(cg) saturates but a point violates the congruence"); }
  // The relation is documented as exact: exactly one of disjoint / included / strictly_intersects
  // describes a non-empty polyhedron; a result claiming none of them is wrong.
  if (!ph.is_empty())
    symrt::require(rel.implies(Poly_Con_Relation::is_included()) || rel.implies(Poly_Con_Relation::is_disjoint()) || rel.implies(Poly_Con_Relation::strictly_intersects()),
                   tag + ": relation_with(cg) returned neither included, disjoint nor strictly_intersects");
  if (rel.implies(Poly_Con_Relation::strictly_intersects())) {
    // not included and not disjoint: in dimension 1 with a non-trivial congruence this is decidable by an interval argument;
    // in general we check the two universally quantified consequences that can be refuted:
    // "strictly intersects" is false if every point violates (then disjoint) or every point satisfies (then included).
    Point x = oracle::fresh_point(n), y = oracle::fresh_point(n);
    // exists-statements cannot be discharged as validities; they are covered from the other side by the
    // exactness requirement above on the paths where the relation is included/disjoint.
    (void) x; (void) y;
  }
  B_.flush();
}

} // namespace hc
#endif
