// C08: widenings are upper bounds, well defined on values, and force convergence.
#include "shapes.hh"
using namespace sh;

namespace {
template <typename D> expr set_of(const D& d, const Point& x) { return oracle::in_cs(d.constraints(), x); }
template <typename D> void same(const D& a, const D& b, const std::string& label) { Point p = oracle::fresh_point(a.space_dimension()); symrt::check(set_of(a, p) == set_of(b, p), label); }
template <typename D> void subset(const D& a, const D& b, const std::string& label) { Point p = oracle::fresh_point(a.space_dimension()); symrt::check(!(set_of(a, p) && !set_of(b, p)), label); }

// ---- polyhedra ----------------------------------------------------------------
template <typename PH>
void run_poly(const char* name, bool nnc) {
  unsigned n = symrt::param("n", 2), m = symrt::param("m", 2); long Bb = symrt::param("Bb", 2);
  int w = symrt::param("w", 0);           // 0: H79, 1: BHRZ03
  std::string tag = std::string("C08 ") + name + (w == 0 ? " H79" : " BHRZ03");
  // y1 from symbolic constraints; y2 = hull(y1, extra) so that y1 is contained in y2
  PH y1(n); std::vector<SymRow> rows;
  for (unsigned i = 0; i < m; ++i) { SymRow r = sym_row(S("a", i), n, 1, Bb, nnc ? 3 : 2); y1.add_constraint(row_constraint(r)); rows.push_back(r); }
  PH extra(n); for (unsigned i = 0; i < symrt::param("me", 2); ++i) { SymRow r = sym_row(S("e", i), n, 1, Bb, 2); extra.add_constraint(row_constraint(r)); }
  PH y2(y1); y2.upper_bound_assign(extra);
  if (y1.is_empty()) return;              // widening requires a non-trivial chain
  auto widen = [&](PH& x, const PH& y, unsigned* tp) { if (w == 0) x.H79_widening_assign(y, tp); else x.BHRZ03_widening_assign(y, tp); };
  PH x(y2); widen(x, y1, 0);
  subset(y2, x, tag + ": the widening does not contain its larger argument");
  symrt::require(x.OK(), tag + ": OK()");
  // representation independence: same values, different histories
  PH y1b(n); for (unsigned i = rows.size(); i-- > 0; ) y1b.add_constraint(row_constraint(rows[i]));
  y1b.add_constraint(row_constraint(rows[0]));                 // redundant duplicate
  int hist = symrt::choose("hist", 3);
  if (hist == 1) (void) y1b.minimized_generators(); else if (hist == 2) (void) y1b.minimized_constraints();
  PH y2b(y2.generators());                                       // rebuilt from generators
  if (symrt::flag("y2min")) (void) y2b.minimized_constraints();
  PH xb(y2b); widen(xb, y1b, 0);
  same(x, xb, tag + ": the result depends on the representation of the arguments");
  // convergence certificate: a non-stationary step strictly decreases it
  bool stationary = x.contains(y1) && y1.contains(x);
  if (!stationary) {
    if (w == 0) { H79_Certificate c(static_cast<const Polyhedron&>(y1)); symrt::require(c.compare(static_cast<const Polyhedron&>(x)) == 1, tag + ": the certificate does not decrease on a non-stationary step"); }
    else { BHRZ03_Certificate c(y1); symrt::require(c.is_stabilizing(x), tag + ": the certificate does not decrease on a non-stationary step"); }
  }
  // chain of length 3: widen again with a further enlargement
  if (symrt::param("chain", 0)) {
    PH extra2(n); { SymRow r = sym_row("f0", n, 1, Bb, 2); extra2.add_constraint(row_constraint(r)); }
    PH y3(x); y3.upper_bound_assign(extra2);
    PH x2(y3); widen(x2, x, 0);
    subset(y3, x2, tag + ": second widening step does not contain its larger argument");
    bool st2 = x2.contains(x) && x.contains(x2);
    if (!st2) { if (w == 0) { H79_Certificate c(static_cast<const Polyhedron&>(x)); symrt::require(c.compare(static_cast<const Polyhedron&>(x2)) == 1, tag + ": certificate not decreasing on the second step"); } else { BHRZ03_Certificate c(x); symrt::require(c.is_stabilizing(x2), tag + ": certificate not decreasing on the second step"); } }
  }
  // tokens: consumed exactly when plain widening would lose precision; the object is then left unchanged
  { unsigned tp = 1; PH t(y2); widen(t, y1, &tp);
    bool loses = !(y2.contains(x));      // plain widening differs from y2
    symrt::require((tp == 0) == loses, tag + ": a token is consumed iff the plain widening loses precision");
    if (tp == 0) same(t, y2, tag + ": widening with a consumed token changed the object");
    else same(t, x, tag + ": widening with an unused token differs from the plain widening");
    // the same on a receiver that only has its generators (the CH78 shortcut of the implementation)
    unsigned tq = 2; PH tg(y2.generators()); if (symrt::flag("tgpend")) tg.add_generator(*y2.generators().begin());
    widen(tg, y1b, &tq);
    symrt::require((tq == 1) == loses && tq >= 1, tag + ": a token is consumed iff the plain widening loses precision (receiver described by generators)");
    if (tq == 1) same(tg, y2, tag + ": widening with a consumed token changed the object (receiver described by generators)");
    else same(tg, x, tag + ": widening with an unused token differs from the plain widening (receiver described by generators)"); }
  // limited extrapolation: between y2 and the plain widening; keeps the supplied constraints that y2 satisfies
  { SymRow lr = sym_row("lim", n, 1, Bb, 2); Constraint_System lcs; lcs.insert(row_constraint(lr));
    PH l(y2); if (w == 0) l.limited_H79_extrapolation_assign(y1, lcs); else l.limited_BHRZ03_extrapolation_assign(y1, lcs);
    subset(y2, l, tag + ": limited extrapolation does not contain the larger argument");
    subset(l, x, tag + ": limited extrapolation is not contained in the plain widening");
    RefSet L(n); ref_add(L, lr);
    Point p = oracle::fresh_point(n), q = oracle::fresh_point(n);
    // if every point of y2 satisfies the limiting constraint then every point of the result does
    PH y2l(y2); y2l.add_constraint(row_constraint(lr));
    if (y2l.contains(y2)) symrt::check(!(set_of(l, q) && !L.contains(q)), tag + ": limited extrapolation dropped a supplied constraint satisfied by the larger argument");
    (void) p; }
}

// ---- weakly relational domains and boxes ----------------------------------------
template <typename D>
void run_shape(const char* name) {
  unsigned n = symrt::param("n", 2), m = symrt::param("m", 2); long Bb = symrt::param("Bb", 2);
  int w = symrt::param("w", 0);           // BD/Oct: 0 BHMZ05, 1 CC76 extrapolation (2: H79 for BD);  Box: 0 CC76
  std::string tag = std::string("C08 ") + name + S(" w", w);
  SymElem<D> Y1 = make_elem<D>("a", n, m, Bb, false, true);
  SymElem<D> E = make_elem<D>("e", n, symrt::param("me", 1), Bb, false, false);
  D& y1 = *Y1.d;
  D y2(y1); y2.upper_bound_assign(*E.d);
  if (y1.is_empty()) return;
  auto widen = [&](D& x, const D& y, unsigned* tp) { x.widening_assign(y, tp); };
  D x(y2); widen(x, y1, 0);
  subset(y2, x, tag + ": the widening does not contain its larger argument");
  symrt::require(x.OK(), tag + ": OK()");
  // representation independence: copies driven into other internal states
  D y1b(n); { Constraint_System cs = y1.constraints(); y1b.add_constraints(cs); }
  int hist = symrt::choose("hist", 3);
  if (hist == 1) (void) y1b.is_empty(); else if (hist == 2) (void) y1b.minimized_constraints();
  D y2b(n); { Constraint_System cs = y2.minimized_constraints(); y2b.add_constraints(cs); }
  D xb(y2b); widen(xb, y1b, 0);
  same(x, xb, tag + ": the result depends on the representation of the arguments");
  // tokens
  { unsigned tp = 1; D t(y2); widen(t, y1, &tp);
    bool loses = !(y2.contains(x));
    symrt::require((tp == 0) == loses, tag + ": a token is consumed iff the plain widening loses precision");
    if (tp == 0) same(t, y2, tag + ": widening with a consumed token changed the object");
    else same(t, x, tag + ": widening with an unused token differs from the plain widening"); }
  // stationarity of the widened iterate against itself: W(x, x) == x
  { D s(x); widen(s, x, 0); same(s, x, tag + ": widening an element with itself is not stationary"); }
}
}
SYMRT_HARNESS(C08_poly) { run_poly<C_Polyhedron>("C_Polyhedron", false); }
SYMRT_HARNESS(C08_nnc) { run_poly<NNC_Polyhedron>("NNC_Polyhedron", true); }
SYMRT_HARNESS(C08_bds) { run_shape<BD_Shape<mpq_class> >("BD_Shape<mpq>"); }
SYMRT_HARNESS(C08_oct) { run_shape<Octagonal_Shape<mpq_class> >("Octagonal_Shape<mpq>"); }
SYMRT_HARNESS(C08_box) { run_shape<Rational_Box>("Rational_Box"); }
