// C04 (exact / best over rationals) and C03 (sound for every T, here T = mpz_class and mpq_class):
// boxes, BD shapes and octagonal shapes.
#include "shapes.hh"
#include "interfaced_boxes.hh"
using namespace sh;

namespace {
template <typename D>
void run(const char* name, bool exact) {
  unsigned n = symrt::param("n", 2), m = symrt::param("m", 2), my = symrt::param("my", 1);
  long Bb = symrt::param("Bb", 3);
  int op = symrt::param("op", 0);
  bool touch = symrt::param("touch", 1) != 0;
  std::string tag = std::string(exact ? "C04 " : "C03 ") + name + S(" op", op);
  SymElem<D> X = make_elem<D>("x", n, m, Bb, true, touch);
  D& x = *X.d; const RefSet& RX = X.R;
  switch (op) {
  case 0: { // predicates between two elements
    SymElem<D> Y = make_elem<D>("y", n, my, Bb, true, touch);
    check_queries(x, RX, *Y.d, Y.R, exact, tag);
    break; }
  case 1: { // intersection_assign: exact
    SymElem<D> Y = make_elem<D>("y", n, my, Bb, true, touch);
    D r(x); r.intersection_assign(*Y.d);
    oracle::CsSet rs = reported(r); Point p = oracle::fresh_point(n);
    if (exact) symrt::check((RX.contains(p) && Y.R.contains(p)) == rs.contains(p), tag + ": intersection_assign is not exact");
    else symrt::check(!(RX.contains(p) && Y.R.contains(p) && !rs.contains(p)), tag + ": intersection_assign lost a point");
    symrt::require(r.OK(), tag + ": OK()");
    break; }
  case 2: { // upper_bound_assign: contains both; over Q the smallest such element
    SymElem<D> Y = make_elem<D>("y", n, my, Bb, true, touch);
    D r(x); r.upper_bound_assign(*Y.d);
    check_contains(r, n, [&](const Point& p) { return RX.contains(p) || Y.R.contains(p); }, tag + ": upper_bound_assign lost a point of an argument");
    if (exact) { RefSet cx = RX, cy = Y.R; for (auto& q : cx.rows) if (q.kind == 2) q.kind = 1; for (auto& q : cy.rows) if (q.kind == 2) q.kind = 1;
      if (Traits<D>::fam != BOX) check_tight(r, {&cx, &cy}, tag + ": upper_bound_assign"); }
    symrt::require(r.OK(), tag + ": OK()");
    break; }
  case 3: { // difference_assign: contains the set difference, contained in the receiver
    SymElem<D> Y = make_elem<D>("y", n, my, Bb, true, touch);
    D r(x); r.difference_assign(*Y.d);
    check_contains(r, n, [&](const Point& p) { return RX.contains(p) && !Y.R.contains(p); }, tag + ": difference_assign lost a point of the set difference");
    if (exact) { oracle::CsSet rs = reported(r); Point p = oracle::fresh_point(n); symrt::check(!(rs.contains(p) && !RX.contains(p)), tag + ": difference_assign is not contained in the receiver"); }
    symrt::require(r.OK(), tag + ": OK()");
    break; }
  case 4: { // affine_image / affine_preimage (sound; exact preimage when expressible is covered by the same check over Q in both directions for unit maps)
    unsigned v = symrt::choose("var", n);
    std::vector<mpz_class> ea; std::vector<expr> ta; Linear_Expression le; long B = symrt::param("B", 1);
    for (unsigned j = 0; j < n; ++j) { ea.push_back(symrt::cinput(S("e", j), -B, B)); ta.push_back(rterm(ea.back())); le += ea[j] * Variable(j); }
    mpz_class eb = symrt::input("eb", -Bb, Bb); le += eb;
    mpz_class d = symrt::flag("dneg") ? mpz_class(-1 - symrt::choose("dabs", 2)) : mpz_class(1 + symrt::choose("dabs", 2));
    auto ev = [&](const Point& p) { expr s = rterm(eb); for (unsigned j = 0; j < n; ++j) s = s + ta[j] * p[j]; return s / rterm(d); };
    D img(x); img.affine_image(Variable(v), le, d);
    { oracle::CsSet rs = reported(img); Point p = oracle::fresh_point(n); Point q = p; q[v] = ev(p);
      symrt::check(!(RX.contains(p) && !rs.contains(q)), tag + ": affine_image lost the image of a point"); }
    D pre(x); pre.affine_preimage(Variable(v), le, d);
    { oracle::CsSet rs = reported(pre); Point p = oracle::fresh_point(n); Point q = p; q[v] = ev(p);
      symrt::check(!(RX.contains(q) && !rs.contains(p)), tag + ": affine_preimage lost a point of the preimage"); }
    symrt::require(img.OK() && pre.OK(), tag + ": OK()");
    break; }
  case 5: { // generalized_affine_image / generalized_affine_preimage (sound)
    unsigned v = symrt::choose("var", n);
    int rk = symrt::choose("rel", Open_OK<D>::value ? 5 : 3);
    static const Relation_Symbol rs_t[5] = { EQUAL, LESS_OR_EQUAL, GREATER_OR_EQUAL, LESS_THAN, GREATER_THAN };
    auto relf = [&](const expr& l, const expr& r) { return rk == 0 ? l == r : rk == 1 ? l <= r : rk == 2 ? l >= r : rk == 3 ? l < r : l > r; };
    std::vector<mpz_class> ea; std::vector<expr> ta; Linear_Expression le; long B = symrt::param("B", 1);
    for (unsigned j = 0; j < n; ++j) { ea.push_back(symrt::cinput(S("e", j), -B, B)); ta.push_back(rterm(ea.back())); le += ea[j] * Variable(j); }
    mpz_class eb = symrt::input("eb", -Bb, Bb); le += eb;
    mpz_class d = symrt::flag("dneg") ? mpz_class(-1 - symrt::choose("dabs", 2)) : mpz_class(1 + symrt::choose("dabs", 2));
    auto ev = [&](const Point& p) { expr s = rterm(eb); for (unsigned j = 0; j < n; ++j) s = s + ta[j] * p[j]; return s / rterm(d); };
    D img(x); img.generalized_affine_image(Variable(v), rs_t[rk], le, d);
    { oracle::CsSet rs = reported(img); Point p = oracle::fresh_point(n); expr t = symrt::fresh_real("t"); Point q = p; q[v] = t;
      symrt::check(!(RX.contains(p) && relf(t, ev(p)) && !rs.contains(q)), tag + ": generalized_affine_image lost a related point"); }
    D pre(x); pre.generalized_affine_preimage(Variable(v), rs_t[rk], le, d);
    { oracle::CsSet rs = reported(pre); Point p = oracle::fresh_point(n); expr t = symrt::fresh_real("t"); Point q = p; q[v] = t;
      // q in X, q equals p off v, q_v rel e(p)/d   ==>  p in the preimage
      symrt::check(!(RX.contains(q) && relf(t, ev(p)) && !rs.contains(p)), tag + ": generalized_affine_preimage lost a point of the preimage"); }
    symrt::require(img.OK() && pre.OK(), tag + ": OK()");
    break; }
  case 6: { // refine_with_constraint (general linear constraint): sound; unconstrain; add/remove dimensions
    long B = symrt::param("B", 2);
    SymRow r = sym_row("r", n, B, Bb, 3);
    D z(x); z.refine_with_constraint(row_constraint(r));
    RefSet RR = RX; ref_add(RR, r);
    check_contains(z, n, [&](const Point& p) { return RR.contains(p); }, tag + ": refine_with_constraint lost a point");
    { oracle::CsSet rs = reported(z); Point p = oracle::fresh_point(n); symrt::check(!(rs.contains(p) && !RX.contains(p)), tag + ": refine_with_constraint enlarged the element"); }
    unsigned v = symrt::choose("var", n);
    D u(x); u.unconstrain(Variable(v));
    { oracle::CsSet rs = reported(u); Point p = oracle::fresh_point(n); expr t = symrt::fresh_real("t"); Point q = p; q[v] = t;
      symrt::check(!(RX.contains(p) && !rs.contains(q)), tag + ": unconstrain lost a point"); }
    symrt::require(z.OK() && u.OK(), tag + ": OK()");
    break; }
  case 7: { // constructor from a closed polyhedron (ANY_COMPLEXITY): contains it; over Q the smallest enclosing element
    long B = symrt::param("B", 1);
    C_Polyhedron ph(n); RefSet RP(n);
    for (unsigned i = 0; i < m; ++i) { SymRow r = sym_row(S("p", i), n, B, Bb, 2); ph.add_constraint(row_constraint(r)); ref_add(RP, r); }
    D z(ph, ANY_COMPLEXITY);
    check_contains(z, n, [&](const Point& p) { return RP.contains(p); }, tag + ": D(C_Polyhedron) lost a point");
    if (exact) check_tight(z, {&RP}, tag + ": D(C_Polyhedron, ANY_COMPLEXITY)");
    D w(ph, POLYNOMIAL_COMPLEXITY);
    check_contains(w, n, [&](const Point& p) { return RP.contains(p); }, tag + ": D(C_Polyhedron, POLYNOMIAL_COMPLEXITY) lost a point");
    symrt::require(z.OK() && w.OK(), tag + ": OK()");
    break; }
  case 8: { // bounds / maximize / minimize / relation_with(Constraint)
    long B = symrt::param("B", 1);
    std::vector<mpz_class> ea; std::vector<expr> ta; Linear_Expression le;
    for (unsigned j = 0; j < n; ++j) { ea.push_back(symrt::cinput(S("e", j), -B, B)); ta.push_back(rterm(ea.back())); le += ea[j] * Variable(j); }
    bool empty = x.is_empty();
    Coefficient num, den; bool mx;
    bool ok = x.maximize(le, num, den, mx);
    bool bfa = x.bounds_from_above(le);
    if (!empty) symrt::require(ok == bfa, tag + ": maximize and bounds_from_above disagree");
    if (ok && !empty) {
      Point p = oracle::fresh_point(n); expr v = rval(0); for (unsigned j = 0; j < n; ++j) v = v + ta[j] * p[j];
      symrt::check(rterm(den) > rval(0) && !(RX.contains(p) && v * rterm(den) > rterm(num)), tag + ": maximize value is not an upper bound");
      if (exact) { expr beta = symrt::fresh_real("beta"); RefSet cx = RX; for (auto& q : cx.rows) if (q.kind == 2) q.kind = 1;
        symrt::check(!(beta * rterm(den) < rterm(num) && bounded_by(cx, ta, beta, false)), tag + ": maximize value is not the least upper bound"); }
    }
    if (!ok && !empty && exact) { expr beta = symrt::fresh_real("beta"); symrt::check(!bounded_by(RX, ta, beta, false) || infeasible(RX.rows, n), tag + ": maximize says unbounded but the expression is bounded"); }
    SymRow r = sym_row("q", n, B, Bb, 2);
    Poly_Con_Relation rel = x.relation_with(row_constraint(r));
    RefSet Q(n); ref_add(Q, r);
    symrt::Batch b;
    if (rel.implies(Poly_Con_Relation::is_included())) { Point p = oracle::fresh_point(n); b.add(!(RX.contains(p) && !Q.contains(p)), tag + ": relation_with(c) is_included but a point violates c"); }
    if (rel.implies(Poly_Con_Relation::is_disjoint())) { Point p = oracle::fresh_point(n); b.add(!(RX.contains(p) && Q.contains(p)), tag + ": relation_with(c) is_disjoint but a point satisfies c"); }
    if (exact && !empty) {
      if (!rel.implies(Poly_Con_Relation::is_included())) b.add(!subset_cert(RX, Q), tag + ": relation_with(c) lacks is_included but the element is included");
      if (!rel.implies(Poly_Con_Relation::is_disjoint())) b.add(!infeasible(cat(RX.rows, Q.rows), n), tag + ": relation_with(c) lacks is_disjoint but the element is disjoint");
    }
    b.flush();
    break; }
  }
}
}
SYMRT_HARNESS(C04_bds) { run<BD_Shape<mpq_class> >("BD_Shape<mpq>", true); }
SYMRT_HARNESS(C04_oct) { run<Octagonal_Shape<mpq_class> >("Octagonal_Shape<mpq>", true); }
SYMRT_HARNESS(C04_box) { run<Rational_Box>("Rational_Box", true); }
SYMRT_HARNESS(C03_bds_z) { run<BD_Shape<mpz_class> >("BD_Shape<mpz>", false); }
SYMRT_HARNESS(C03_oct_z) { run<Octagonal_Shape<mpz_class> >("Octagonal_Shape<mpz>", false); }
SYMRT_HARNESS(C03_box_z) { run<Z_Box>("Z_Box", false); }
SYMRT_HARNESS(C03_bds_q) { run<BD_Shape<mpq_class> >("BD_Shape<mpq>", false); }
SYMRT_HARNESS(C03_oct_q) { run<Octagonal_Shape<mpq_class> >("Octagonal_Shape<mpq>", false); }
SYMRT_HARNESS(C03_box_q) { run<Rational_Box>("Rational_Box", false); }
