// C18: termination analysis returns only genuine ranking functions; methods agree.
#include "common.hh"
using namespace hc;

namespace {
// f(x) = mu_0 + mu . x, scaled by the (positive) divisor of the point mu
struct Rank { std::vector<expr> mu; expr mu0; Rank() : mu0(rval(0)) {} 
  expr at(const Point& x) const { expr s = mu0; for (unsigned j = 0; j < mu.size(); ++j) s = s + mu[j] * x[j]; return s; }
  expr hom(const Point& d) const { expr s = rval(0); for (unsigned j = 0; j < mu.size(); ++j) s = s + mu[j] * d[j]; return s; } };
Rank rank_of(const Generator& g, unsigned n) { Rank r; for (unsigned j = 0; j < n; ++j) { Coefficient c = j < g.space_dimension() ? g.coefficient(Variable(j)) : Coefficient(0); r.mu.push_back(rterm(c)); }
  Coefficient c0 = n < g.space_dimension() ? g.coefficient(Variable(n)) : Coefficient(0); r.mu0 = rterm(c0); return r; }
// R is a closed polyhedron over (x', x): f is a ranking function iff it decreases by a fixed positive amount on
// every transition and is bounded from below on the states with a successor:
//   no (x',x) in R with f(x) - f(x') <= 0;  no recession direction (d',d) of R with f(d) - f(d') < 0;  none with f(d) < 0.
void check_ranking(const Rank& f, const RefSet& R, unsigned n, const std::string& tag) {
  symrt::Batch b;
  Point z = oracle::fresh_point(2 * n); Point xp(z.begin(), z.begin() + n), x(z.begin() + n, z.end());
  b.add(!(R.contains(z) && f.at(x) - f.at(xp) <= rval(0)), tag + ": the returned function does not decrease on a transition");
  Point d = oracle::fresh_point(2 * n, "d"); Point dp(d.begin(), d.begin() + n), dx(d.begin() + n, d.end());
  Point w = oracle::fresh_point(2 * n, "w");
  b.add(!(R.contains(w) && R.recedes(d) && f.hom(dx) - f.hom(dp) < rval(0)), tag + ": the decrease of the returned function is not bounded away from zero");
  b.add(!(R.contains(w) && R.recedes(d) && f.hom(dx) < rval(0)), tag + ": the returned function is not bounded from below");
  b.flush();
}
}

SYMRT_HARNESS(C18_one_pset) {
  unsigned n = symrt::param("n", 1), m = symrt::param("m", 2);
  long B = symrt::param("B", 1), Bb = symrt::param("Bb", 2);
  C_Polyhedron ph(2 * n); RefSet R(2 * n);
  for (unsigned i = 0; i < m; ++i) {
    SymRow r; for (unsigned j = 0; j < 2 * n; ++j) r.a.push_back(symrt::cinput(S("a", i, j), -B, B));
    r.b = symrt::input(S("b", i), -Bb, Bb); r.kind = symrt::flag(S("eq", i)) ? 0 : 1; r.m = 0;
    ph.add_constraint(row_constraint(r)); ref_add(R, r);
  }
  bool t_ms = termination_test_MS(ph), t_pr = termination_test_PR(ph);
  Generator mu_ms = point(), mu_pr = point();
  bool r_ms = one_affine_ranking_function_MS(ph, mu_ms), r_pr = one_affine_ranking_function_PR(ph, mu_pr);
  symrt::note(std::string("terminates=") + (t_ms ? "1" : "0"));
  symrt::require(t_ms == r_ms, "C18: termination_test_MS and one_affine_ranking_function_MS disagree");
  symrt::require(t_pr == r_pr, "C18: termination_test_PR and one_affine_ranking_function_PR disagree");
  symrt::require(t_ms == t_pr, "C18: the MS and PR verdicts differ on a closed polyhedron");
  if (r_ms) { symrt::require(mu_ms.is_point() && mu_ms.space_dimension() == n + 1, "C18: mu (MS) is not a point of dimension n+1"); check_ranking(rank_of(mu_ms, n), R, n, "C18 MS"); }
  if (r_pr) { symrt::require(mu_pr.is_point() && mu_pr.space_dimension() == n + 1, "C18: mu (PR) is not a point of dimension n+1"); check_ranking(rank_of(mu_pr, n), R, n, "C18 PR"); }
  if (symrt::param("all", 1)) {
    C_Polyhedron ms_space; NNC_Polyhedron pr_space;
    all_affine_ranking_functions_MS(ph, ms_space);
    all_affine_ranking_functions_PR(ph, pr_space);
    symrt::require(ms_space.is_empty() == !t_ms, "C18: all_affine_ranking_functions_MS empty iff no termination");
    symrt::require(pr_space.is_empty() == !t_pr, "C18: all_affine_ranking_functions_PR empty iff no termination");
    if (!ms_space.is_empty()) { const Generator_System& gs = ms_space.minimized_generators(); int k = 0;
      for (Generator_System::const_iterator g = gs.begin(); g != gs.end() && k < 3; ++g) if (g->is_point()) { check_ranking(rank_of(*g, n), R, n, "C18 MS space point"); ++k; } }
    if (!pr_space.is_empty()) { const Generator_System& gs = pr_space.minimized_generators(); int k = 0;
      for (Generator_System::const_iterator g = gs.begin(); g != gs.end() && k < 3; ++g) if (g->is_point()) { check_ranking(rank_of(*g, n), R, n, "C18 PR space point"); ++k; } }
  }
  // const argument unchanged
  { Point x = oracle::fresh_point(2 * n); symrt::check(R.contains(x) == oracle::in_cs(ph.constraints(), x), "C18: the relation was modified"); }
}

// Two-pointset entry points: guard over n dimensions, transition over 2n dimensions.
SYMRT_HARNESS(C18_two_psets) {
  unsigned n = symrt::param("n", 1), r = symrt::param("r", 2), s = symrt::param("s", 1);
  long B = symrt::param("B", 1), Bb = symrt::param("Bb", 1);
  C_Polyhedron before(n), after(2 * n); RefSet R(2 * n);
  for (unsigned i = 0; i < r; ++i) {
    SymRow row; for (unsigned j = 0; j < n; ++j) row.a.push_back(symrt::cinput(S("g", i, j), -B, B));
    row.b = symrt::input(S("gb", i), -Bb, Bb); row.kind = 1; row.m = 0;
    before.add_constraint(row_constraint(row));
    // the guard constrains the unprimed variables, which are dimensions n..2n-1 of the relation
    std::vector<expr> a(2 * n, ival(0)); for (unsigned j = 0; j < n; ++j) a[n + j] = term(row.a[j]); R.add(a, term(row.b), 1);
  }
  for (unsigned i = 0; i < s; ++i) {
    SymRow row; for (unsigned j = 0; j < 2 * n; ++j) row.a.push_back(symrt::cinput(S("t", i, j), -B, B));
    row.b = symrt::input(S("tb", i), -Bb, Bb); row.kind = symrt::flag(S("teq", i)) ? 0 : 1; row.m = 0;
    after.add_constraint(row_constraint(row)); ref_add(R, row);
  }
  bool t_ms = termination_test_MS_2(before, after), t_pr = termination_test_PR_2(before, after);
  Generator mu_ms = point(), mu_pr = point();
  bool r_ms = one_affine_ranking_function_MS_2(before, after, mu_ms), r_pr = one_affine_ranking_function_PR_2(before, after, mu_pr);
  symrt::note(std::string("terminates=") + (t_ms ? "1" : "0"));
  symrt::require(t_ms == r_ms, "C18 2: termination_test_MS_2 and one_affine_ranking_function_MS_2 disagree");
  symrt::require(t_pr == r_pr, "C18 2: termination_test_PR_2 and one_affine_ranking_function_PR_2 disagree");
  symrt::require(t_ms == t_pr, "C18 2: the MS_2 and PR_2 verdicts differ on closed polyhedra");
  if (r_ms) check_ranking(rank_of(mu_ms, n), R, n, "C18 MS_2");
  if (r_pr) check_ranking(rank_of(mu_pr, n), R, n, "C18 PR_2");
  if (symrt::param("all", 1)) {
    C_Polyhedron ms_space; NNC_Polyhedron pr_space;
    all_affine_ranking_functions_MS_2(before, after, ms_space);
    all_affine_ranking_functions_PR_2(before, after, pr_space);
    symrt::require(ms_space.is_empty() == !t_ms, "C18 2: all_affine_ranking_functions_MS_2 empty iff no termination");
    symrt::require(pr_space.is_empty() == !t_pr, "C18 2: all_affine_ranking_functions_PR_2 empty iff no termination");
    if (!pr_space.is_empty()) { const Generator_System& gs = pr_space.minimized_generators(); int k = 0;
      for (Generator_System::const_iterator g = gs.begin(); g != gs.end() && k < 3; ++g) if (g->is_point()) { check_ranking(rank_of(*g, n), R, n, "C18 PR_2 space point"); ++k; } }
    if (!ms_space.is_empty()) { const Generator_System& gs = ms_space.minimized_generators(); int k = 0;
      for (Generator_System::const_iterator g = gs.begin(); g != gs.end() && k < 3; ++g) if (g->is_point()) { check_ranking(rank_of(*g, n), R, n, "C18 MS_2 space point"); ++k; } }
  }
}
