// C14: exceptional exits are clean -- rejected calls change nothing, failures leak none.
#include "shapes.hh"
#include <stdexcept>
using namespace sh;

namespace {
template <typename D> expr set_of(const D& d, const Point& x) { return oracle::in_cs(d.constraints(), x); }
enum Expect { INVALID_ARGUMENT, LENGTH_ERROR, DOMAIN_ERROR };
// runs `call'; returns true iff it threw the documented exception
template <typename F> bool throws(Expect e, F call, std::string& got) {
  try { call(); got = "no exception"; return false; }
  catch (std::invalid_argument&) { got = "std::invalid_argument"; return e == INVALID_ARGUMENT; }
  catch (std::length_error&) { got = "std::length_error"; return e == LENGTH_ERROR; }
  catch (std::domain_error&) { got = "std::domain_error"; return e == DOMAIN_ERROR; }
  catch (std::exception& x) { got = std::string("other: ") + x.what(); return false; }
}
}

// (a) rejected calls: the documented exception is thrown and every object keeps its value
SYMRT_HARNESS(C14_rejected) {
  unsigned n = 2; long Bb = symrt::param("Bb", 2);
  int dom = symrt::param("dom", 0);
  std::string got;
  if (dom == 0) { // polyhedra
    bool nnc = symrt::flag("nnc");
    RefSet R(n); Polyhedron* php = nnc ? static_cast<Polyhedron*>(new NNC_Polyhedron(n)) : static_cast<Polyhedron*>(new C_Polyhedron(n));
    std::unique_ptr<Polyhedron> g(php); Polyhedron& ph = *php;
    for (int i = 0; i < 2; ++i) { SymRow r = sym_row(S("c", i), n, 1, Bb, nnc ? 3 : 2); ph.add_constraint(row_constraint(r)); ref_add(R, r); }
    int st = symrt::choose("state", 3); if (st == 1) (void) ph.minimized_generators(); else if (st == 2) (void) ph.is_empty();
    int call = symrt::choose("call", 12);
    Variable A(0), B(1), C(2);
    C_Polyhedron other3(3); NNC_Polyhedron nother(n); C_Polyhedron cother(n);
    bool ok = true;
    switch (call) {
    case 0: ok = throws(INVALID_ARGUMENT, [&] { ph.add_constraint(C >= 0); }, got); break;
    case 1: ok = throws(INVALID_ARGUMENT, [&] { ph.add_generator(point(C)); }, got); break;
    case 2: ok = throws(INVALID_ARGUMENT, [&] { ph.affine_image(A, A + B, 0); }, got); break;
    case 3: ok = throws(INVALID_ARGUMENT, [&] { ph.affine_preimage(C, A, 1); }, got); break;
    case 4: ok = throws(INVALID_ARGUMENT, [&] { ph.generalized_affine_image(A, NOT_EQUAL, B, 1); }, got); break;
    case 5: ok = nnc ? true : throws(INVALID_ARGUMENT, [&] { ph.add_constraint(A > 0); }, got); break;
    case 6: ok = throws(INVALID_ARGUMENT, [&] { if (nnc) ph.intersection_assign(cother); else ph.intersection_assign(nother); }, got); break;
    case 7: ok = throws(INVALID_ARGUMENT, [&] { ph.concatenate_assign(nnc ? static_cast<const Polyhedron&>(cother) : static_cast<const Polyhedron&>(nother)); }, got); break;
    case 8: ok = throws(INVALID_ARGUMENT, [&] { Variables_Set vs; vs.insert(C); ph.remove_space_dimensions(vs); }, got); break;
    case 9: ok = throws(INVALID_ARGUMENT, [&] { (void) ph.relation_with(C >= 1); }, got); break;
    case 10: ok = throws(INVALID_ARGUMENT, [&] { Coefficient a, b; bool m; (void) ph.maximize(A + C, a, b, m); }, got); break;
    case 11: ok = throws(INVALID_ARGUMENT, [&] { ph.bounded_affine_image(A, B, C, 1); }, got); break;
    }
    symrt::require(ok, S("C14 rejected polyhedron call ", call) + ": expected the documented exception, got " + got);
    Point p = oracle::fresh_point(n);
    symrt::check(set_of(ph, p) == R.contains(p), S("C14 rejected polyhedron call ", call) + ": the receiver changed");
    symrt::require(ph.OK(), "C14 rejected polyhedron call: OK()");
    // an empty polyhedron refuses a ray as first generator
    C_Polyhedron e(n, EMPTY);
    symrt::require(throws(INVALID_ARGUMENT, [&] { e.add_generator(ray(A)); }, got) && e.is_empty() && e.OK(), "C14: adding a ray to an empty polyhedron must throw and leave it empty, got " + got);
  }
  else if (dom == 1) { // BD shapes / octagons / boxes
    SymElem<BD_Shape<mpq_class> > X = make_elem<BD_Shape<mpq_class> >("x", n, 2, Bb, false, true);
    BD_Shape<mpq_class>& x = *X.d; Variable A(0), B(1), C(2);
    int call = symrt::choose("call", 6); bool ok = true;
    BD_Shape<mpq_class> y3(3);
    switch (call) {
    case 0: ok = throws(INVALID_ARGUMENT, [&] { x.add_constraint(A + B <= 1); }, got); break;          // not a bounded difference
    case 1: ok = throws(INVALID_ARGUMENT, [&] { x.add_constraint(A - B < 1); }, got); break;           // strict
    case 2: ok = throws(INVALID_ARGUMENT, [&] { x.intersection_assign(y3); }, got); break;
    case 3: ok = throws(INVALID_ARGUMENT, [&] { x.affine_image(A, B, 0); }, got); break;
    case 4: ok = throws(INVALID_ARGUMENT, [&] { x.upper_bound_assign(y3); }, got); break;
    case 5: ok = throws(INVALID_ARGUMENT, [&] { (void) x.relation_with(C >= 0); }, got); break;
    }
    symrt::require(ok, S("C14 rejected BD_Shape call ", call) + ": expected std::invalid_argument, got " + got);
    Point p = oracle::fresh_point(n);
    symrt::check(set_of(x, p) == X.R.contains(p), S("C14 rejected BD_Shape call ", call) + ": the receiver changed");
    symrt::require(x.OK(), "C14 rejected BD_Shape call: OK()");
  }
  else { // solvers: querying an unsolved / unfeasible problem
    MIP_Problem mip(1); Variable A(0);
    mpz_class b = symrt::input("b", -2, 2);
    mip.add_constraint(A >= b); mip.add_constraint(A <= -1);   // feasible iff b <= -1
    MIP_Problem_Status st = mip.solve();
    if (st == UNFEASIBLE_MIP_PROBLEM) {
      symrt::require(throws(DOMAIN_ERROR, [&] { (void) mip.feasible_point(); }, got), "C14: feasible_point() of an unfeasible MIP problem must throw std::domain_error, got " + got);
      symrt::require(throws(DOMAIN_ERROR, [&] { (void) mip.optimizing_point(); }, got), "C14: optimizing_point() of an unfeasible MIP problem must throw std::domain_error, got " + got);
      symrt::require(mip.OK() && mip.solve() == UNFEASIBLE_MIP_PROBLEM, "C14: the MIP problem changed after the rejected query");
    }
    symrt::require(throws(INVALID_ARGUMENT, [&] { mip.add_constraint(Variable(3) >= 0); }, got), "C14: MIP add_constraint of a higher dimension must throw std::invalid_argument, got " + got);
    symrt::require(throws(INVALID_ARGUMENT, [&] { mip.add_constraint(A > 0); }, got), "C14: MIP add_constraint of a strict inequality must throw std::invalid_argument, got " + got);
    symrt::require(mip.solve() == st && mip.OK(), "C14: the MIP problem changed after rejected additions");
  }
}

// (b) an allocation fails at a symbolic position (operator new or the big-number layer): std::bad_alloc
// propagates, nothing leaks, the objects stay destructible / assignable / usable.
SYMRT_HARNESS(C14_alloc) {
  unsigned n = 2; long B = symrt::param("B", 1);
  int op = symrt::param("op", 0);
  unsigned kinds = symrt::param("kinds", 3);
  // concrete data: the symbolic quantity is the position of the failing allocation
  std::vector<mpz_class> a; for (int i = 0; i < 4; ++i) a.push_back(symrt::cinput(S("a", i), -B, B));
  Variable A(0), Bv(1);
  auto body = [&](C_Polyhedron& ph, C_Polyhedron& q) {
    switch (op) {
    case 0: (void) ph.minimized_generators(); break;
    case 1: ph.intersection_assign(q); (void) ph.minimized_constraints(); break;
    case 2: ph.poly_hull_assign(q); break;
    case 3: ph.affine_image(A, a[0] * A + Bv + 1, 2); (void) ph.minimized_constraints(); break;
    case 4: { BD_Shape<mpq_class> bd(ph); bd.affine_image(A, A - Bv); (void) bd.minimized_constraints(); break; }
    case 5: { Linear_Expression e(SPARSE); e += a[0] * A; e += a[1] * Bv; e += 3 * Variable(5); Linear_Expression f(e); f += e; Constraint c(f >= 1); Constraint_System cs(SPARSE); cs.insert(c); cs.insert(e == 2); C_Polyhedron z(cs); (void) z.is_empty(); break; }
    case 6: { MIP_Problem mip(n, ph.constraints(), a[2] * A + Bv, MAXIMIZATION); (void) mip.solve(); break; }
    case 7: { Pointset_Powerset<C_Polyhedron> ps(ph); ps.add_disjunct(q); ps.pairwise_reduce(); break; }
    case 9: { // NNC simplify_using_context_assign on disjoint arguments (MIP-based branch): the receiver must stay usable after a failure
      NNC_Polyhedron x(ph), y(q); x.add_constraint(A < 0); y.add_constraint(A > 1);
      try { (void) x.simplify_using_context_assign(y); }
      catch (std::bad_alloc&) {
        symrt::require(x.OK() && y.OK(), "C14 alloc op 9: OK() of the NNC arguments after the failure");
        bool dims_ok = true; const Constraint_System& cs = x.constraints();
        for (Constraint_System::const_iterator c = cs.begin(); c != cs.end(); ++c) if (c->space_dimension() > n) dims_ok = false;
        symrt::require(dims_ok, "C14 alloc op 9: after the failure the receiver reports a constraint of a higher space dimension");
        bool usable = true; try { NNC_Polyhedron z(x); (void) z.simplify_using_context_assign(y); (void) z.is_empty(); } catch (std::exception&) { usable = false; }
        symrt::require(usable, "C14 alloc op 9: the receiver is not usable after the failure (retrying the call throws)");
        throw;
      }
      break; }
    case 8: { Grid gr(n); gr.add_congruence((a[0] * A + 2 * Bv %= 1) / 3); gr.add_congruence((A - Bv %= 0) / 2); (void) gr.minimized_grid_generators(); break; }
    }
  };
  auto make = [&](C_Polyhedron& ph, C_Polyhedron& q) {
    ph.add_constraint(a[0] * A + a[1] * Bv >= -2); ph.add_constraint(A <= 3); ph.add_constraint(Bv >= -1);
    q.add_constraint(a[2] * A + a[3] * Bv >= -1); q.add_constraint(A >= -3); q.add_constraint(Bv <= 2);
  };
  { // warm-up run without ledger: the library's pools of temporaries are filled once and legitimately stay allocated
    C_Polyhedron ph(n), q(n); make(ph, q); body(ph, q); if (op == 9) { NNC_Polyhedron x(ph), y(q); x.add_constraint(A < 0); y.add_constraint(A > 1); NNC_Polyhedron z(x); (void) z.simplify_using_context_assign(y); (void) z.is_empty(); (void) x.OK(); } C_Polyhedron r(ph); r.intersection_assign(q); (void) (r == ph); (void) ph.OK(); }
  long base = symrt::live_blocks();
  symrt::faults_ledger(true);
  bool threw = false; std::string what;
  {
    C_Polyhedron ph(n), q(n);
    make(ph, q);
    C_Polyhedron ph0(ph), q0(q);
    symrt::faults_arm(kinds);
    try { body(ph, q); }
    catch (std::bad_alloc&) { threw = true; what = "std::bad_alloc"; }
    catch (std::exception& x) { threw = true; what = std::string("other exception: ") + x.what(); }
    symrt::faults_disarm();
    symrt::require(threw == symrt::fault_fired(), S("C14 alloc op ", op) + ": an exception without an injected fault, or a swallowed allocation failure (" + what + ")");
    if (threw) symrt::require(what == "std::bad_alloc", S("C14 alloc op ", op) + ": the allocation failure surfaced as " + what);
    // the objects involved are still usable: invariant, assignment, and the operation repeated without faults
    symrt::require(ph.OK() && q.OK(), S("C14 alloc op ", op) + ": OK() after the failure");
    ph = ph0; q = q0;
    C_Polyhedron r1(ph); r1.intersection_assign(q);
    C_Polyhedron r2(ph0); r2.intersection_assign(q0);
    symrt::require(r1 == r2 && r1.OK(), S("C14 alloc op ", op) + ": the library gives different answers after the failure");
  }
  symrt::faults_ledger(false);
  long leaked = symrt::live_blocks() - base;
  symrt::note(threw ? "fault=1" : "fault=0");
  symrt::require(leaked == 0, S("C14 alloc op ", op) + ": memory leaked after unwinding");
  if (leaked != 0) symrt::fact("leaked_blocks", std::to_string(leaked));
}
