// Shared harness for boxes, BD shapes and octagonal shapes (C03: soundness for every T;
// C04: exactness / best abstraction over rationals).  Constraint coefficients are forked to
// concrete values in {-1,0,1} (x {-2..2} for non-expressible refinements); right-hand sides
// are symbolic over a wide range.
#ifndef SHAPES_HH
#define SHAPES_HH
#include "common.hh"

namespace sh {
using namespace hc;

// ---- Farkas certificates: quantifier-free "the conjunction of rows has no real solution" -------
// rows: a.x + b (kind) 0 with kind 0 '=', 1 '>=', 2 '>'.  Infeasible iff exist multipliers
// (free for '=', >= 0 otherwise) with sum l_i a_i = 0 and (sum l_i b_i < 0, or = 0 with a positive
// multiplier on a strict row).
inline expr infeasible(const std::vector<oracle::RefRow>& rows, unsigned n) {
  std::vector<expr> l; expr side = bval(true), sb = rval(0), strict = rval(0);
  std::vector<expr> sa(n, rval(0));
  for (auto& r : rows) { expr k = symrt::fresh_real("fk"); l.push_back(k);
    if (r.kind != 0) side = side && k >= rval(0);
    if (r.kind == 2) strict = strict + k;
    for (unsigned j = 0; j < n; ++j) sa[j] = sa[j] + k * r.a[j];
    sb = sb + k * r.b; }
  expr f = side; for (unsigned j = 0; j < n; ++j) f = f && sa[j] == rval(0);
  return f && (sb < rval(0) || (sb == rval(0) && strict > rval(0)));
}
inline std::vector<oracle::RefRow> cat(const std::vector<oracle::RefRow>& a, const std::vector<oracle::RefRow>& b) { std::vector<oracle::RefRow> r = a; for (auto& x : b) r.push_back(x); return r; }
// negation of one row as rows (for '=': two alternatives)
inline std::vector<std::vector<oracle::RefRow> > negations(const oracle::RefRow& r) {
  std::vector<std::vector<oracle::RefRow> > out;
  auto neg = [&](int kind) { oracle::RefRow q = r; for (auto& e : q.a) e = -e; q.b = -q.b; q.kind = kind; return q; };
  if (r.kind == 0) { out.push_back({neg(2)}); oracle::RefRow p = r; p.kind = 2; out.push_back({p}); }
  else if (r.kind == 1) out.push_back({neg(2)});
  else out.push_back({neg(1)});
  return out;
}
// "A is not a subset of B" has no witness  <=>  for every row r of B, A and not r is infeasible
inline expr subset_cert(const RefSet& A, const RefSet& B) {
  expr f = bval(true);
  for (auto& r : B.rows) for (auto& alt : negations(r)) f = f && infeasible(cat(A.rows, alt), A.n);
  return f;
}
// sup of e over A is at most beta (dual certificate), A assumed non-empty:  e.x <= beta on A
inline expr bounded_by(const RefSet& A, const std::vector<expr>& e, const expr& beta, bool strict) {
  // rows of A and  e.x - beta (>, >=) 0  infeasible
  std::vector<expr> a = e; oracle::RefRow q(a, -beta, strict ? 1 : 2, rval(1));
  return infeasible(cat(A.rows, {q}), A.n);
}

// ---- symbolic elements -----------------------------------------------------------------------
// shape-expressible constraint:  s1*x_i + s2*x_j <= b   (kind: box uses j == i only; BD uses s2 = -s1)
enum Family { BOX = 0, BDS = 1, OCT = 2 };
struct SymShapeRow { unsigned i, j; int s1, s2; mpz_class b; bool strict; bool eq; };
template <typename D> struct Traits;
template <typename T> struct Traits<BD_Shape<T> > { static const Family fam = BDS; };
template <typename T> struct Traits<Octagonal_Shape<T> > { static const Family fam = OCT; };
template <typename I> struct Traits<Box<I> > { static const Family fam = BOX; };
template <typename D> struct Open_OK { static const bool value = false; };
template <> struct Open_OK<Rational_Box> { static const bool value = true; };

inline SymShapeRow sym_shape_row(const std::string& pfx, unsigned n, Family fam, long Bb, bool allow_strict) {
  SymShapeRow r; r.strict = false; r.eq = false;
  r.i = symrt::choose(pfx + "i", n);
  r.s1 = symrt::flag(pfx + "s1") ? -1 : 1;
  if (fam == BOX || n == 1) { r.j = r.i; r.s2 = 0; }
  else {
    int k = symrt::choose(pfx + "j", n);            // k == i: unary constraint
    r.j = k;
    if (r.j == r.i) r.s2 = 0;
    else if (fam == BDS) r.s2 = -r.s1;
    else r.s2 = symrt::flag(pfx + "s2") ? -1 : 1;
  }
  r.b = symrt::input(pfx + "b", -Bb, Bb);
  if (allow_strict) r.strict = symrt::flag(pfx + "strict");
  if (!r.strict && symrt::param("eqs", 1)) r.eq = symrt::flag(pfx + "eq");
  return r;
}
inline Constraint shape_constraint(const SymShapeRow& r) {
  Linear_Expression e = r.s1 * Variable(r.i); if (r.s2 != 0) e += r.s2 * Variable(r.j);
  if (r.eq) return Constraint(e == r.b);
  return r.strict ? Constraint(e < r.b) : Constraint(e <= r.b);
}
inline void ref_add_shape(RefSet& R, const SymShapeRow& r) {
  std::vector<expr> a(R.n, ival(0)); a[r.i] = ival(-r.s1); if (r.s2 != 0) a[r.j] = ival(-r.s2);
  R.add(a, term(r.b), r.eq ? 0 : r.strict ? 2 : 1);     //  b - s1 x_i - s2 x_j >= 0  (or == 0)
}
template <typename D>
struct SymElem { std::unique_ptr<D> d; RefSet R; SymElem(unsigned n) : R(n) {} };
template <typename D>
SymElem<D> make_elem(const std::string& pfx, unsigned n, unsigned m, long Bb, bool strict_ok, bool touch) {
  SymElem<D> e(n); e.d.reset(new D(n));
  for (unsigned k = 0; k < m; ++k) {
    SymShapeRow r = sym_shape_row(S(pfx, k), n, Traits<D>::fam, Bb, strict_ok && Open_OK<D>::value); e.d->add_constraint(shape_constraint(r)); ref_add_shape(e.R, r);
    // observers between additions: the next constraint is added to a closed / reduced / known non-empty element
    if (touch && k + 1 < m) { int t = symrt::choose(pfx + S("mid", k), 3); if (t == 1) (void) e.d->is_empty(); else if (t == 2) (void) e.d->minimized_constraints(); }
  }
  if (touch) { int t = symrt::choose(pfx + "touch", 3); if (t == 1) (void) e.d->is_empty(); else if (t == 2) (void) e.d->minimized_constraints(); }
  return e;
}
// the point set of an element as reported through constraints()
template <typename D> inline oracle::CsSet reported(const D& d) { return oracle::CsSet(d.constraints(), d.space_dimension()); }
inline RefSet as_refset(const Constraint_System& cs, unsigned n) {
  RefSet R(n);
  for (Constraint_System::const_iterator c = cs.begin(); c != cs.end(); ++c) { std::vector<expr> a; for (unsigned j = 0; j < n; ++j) { Coefficient k = j < c->space_dimension() ? c->coefficient(Variable(j)) : Coefficient(0); a.push_back(term(k)); }
    Coefficient b = c->inhomogeneous_term(); R.add(a, term(b), c->is_equality() ? 0 : c->is_strict_inequality() ? 2 : 1); }
  return R;
}

// ---- queries: definite answers are true of the sets (C03); exact in both directions when `exact' (C04) ----
template <typename D>
void check_queries(const D& x, const RefSet& RX, const D& y, const RefSet& RY, bool exact, const std::string& tag) {
  unsigned n = RX.n;
  symrt::Batch b;
  bool e = x.is_empty();
  if (e) { Point p = oracle::fresh_point(n); b.add(!RX.contains(p), tag + ": is_empty() but the set has a point"); }
  else if (exact) b.add(!infeasible(RX.rows, n), tag + ": !is_empty() but the set is empty");
  bool c = x.contains(y);
  if (c) { Point p = oracle::fresh_point(n); b.add(!(RY.contains(p) && !RX.contains(p)), tag + ": contains() but a point of the argument is missing"); }
  else if (exact) b.add(!subset_cert(RY, RX), tag + ": !contains() but the argument is a subset");
  bool dj = x.is_disjoint_from(y);
  if (dj) { Point p = oracle::fresh_point(n); b.add(!(RY.contains(p) && RX.contains(p)), tag + ": is_disjoint_from() but a common point exists"); }
  else if (exact) b.add(!infeasible(cat(RX.rows, RY.rows), n), tag + ": !is_disjoint_from() but the sets are disjoint");
  bool eq = (x == y);
  if (eq) { Point p = oracle::fresh_point(n); b.add(RY.contains(p) == RX.contains(p), tag + ": operator== but the sets differ"); }
  else if (exact) b.add(!(subset_cert(RY, RX) && subset_cert(RX, RY)), tag + ": operator!= but the sets are equal");
  bool u = x.is_universe();
  if (u) { Point p = oracle::fresh_point(n); b.add(RX.contains(p), tag + ": is_universe() but a point is missing"); }
  else if (exact) { expr viol = bval(false); for (auto& r : RX.rows) { expr nz = bval(false); for (auto& a : r.a) nz = nz || a != rval(0); viol = viol || nz || (r.kind == 0 ? r.b != rval(0) : r.kind == 1 ? r.b < rval(0) : r.b <= rval(0)); }
    b.add(viol, tag + ": !is_universe() but the set is the whole space"); }
  bool bd = x.is_bounded();
  if (bd && !e) { Point d = oracle::fresh_point(n, "d"); expr nz = bval(false); for (auto& q : d) nz = nz || q != rval(0); Point p0 = oracle::fresh_point(n); b.add(!(RX.contains(p0) && nz && RX.recedes(d)), tag + ": is_bounded() but the set has a recession direction"); }
  b.flush();
  if (exact) symrt::require(x.strictly_contains(y) == (c && !eq), tag + ": strictly_contains() inconsistent with contains()/==");
  symrt::require(x.OK(), tag + ": OK()");
}

// result contains a set given by a positive formula builder (soundness, C03)
template <typename D, typename F>
void check_contains(const D& res, unsigned n, F exact_set, const std::string& label) {
  oracle::CsSet rs = reported(res);
  Point p = oracle::fresh_point(n);
  symrt::check(!(exact_set(p) && !rs.contains(p)), label);
}
// every reported constraint of `res' is tight for the union of the sets in `parts' (best abstraction, C04)
template <typename D>
void check_tight(const D& res, const std::vector<const RefSet*>& parts, const std::string& label) {
  unsigned n = res.space_dimension();
  if (res.is_empty()) { symrt::Batch be; for (auto P : parts) { Point p = oracle::fresh_point(n); be.add(!P->contains(p), label + ": empty result but a part is not empty"); } be.flush(); return; }
  Constraint_System cs = res.minimized_constraints();
  symrt::Batch b;
  for (Constraint_System::const_iterator c = cs.begin(); c != cs.end(); ++c) {
    // c: a.x + b0 >= 0 (or = 0).  Tight iff no part admits  a.x + b0 >= eps > 0 ... i.e. not all parts are bounded away:
    // NOT( for all parts P (non-empty): exists beta' with  -a.x <= beta' < b0 on P ).
    std::vector<expr> ma, pa; for (unsigned j = 0; j < n; ++j) { Coefficient k = j < c->space_dimension() ? c->coefficient(Variable(j)) : Coefficient(0); ma.push_back(-rterm(k)); pa.push_back(rterm(k)); }
    Coefficient b0 = c->inhomogeneous_term();
    expr all_away = bval(true), all_away2 = bval(true);
    for (auto P : parts) { expr beta = symrt::fresh_real("beta"); all_away = all_away && (infeasible(P->rows, n) || (beta < rterm(b0) && bounded_by(*P, ma, beta, false))); }
    b.add(!all_away, label + ": a reported constraint is not tight (not the smallest enclosing element)");
    if (c->is_equality()) { for (auto P : parts) { expr beta = symrt::fresh_real("beta"); all_away2 = all_away2 && (infeasible(P->rows, n) || (beta < -rterm(b0) && bounded_by(*P, pa, beta, false))); }
      b.add(!all_away2, label + ": a reported equality is not tight from the other side"); }
  }
  b.flush();
}
} // namespace sh
#endif
