// C06: MIP solver -- status, optimum and witness are right, incrementally or from scratch.
// Constraint matrix and objective are forked to concrete values (keeps the oracle linear);
// right-hand sides are symbolic over a wide range.
#include "common.hh"
using namespace hc;

namespace {
struct Row { std::vector<mpz_class> a; mpz_class b; int kind; };    // a.x + b (>=,==,<=) 0 : kind 0,1,2
struct Prob {
  unsigned n; std::vector<Row> rows; std::vector<mpz_class> c; mpz_class c0; std::vector<bool> is_int; bool maximize;
  Constraint con(const Row& r) const { Linear_Expression e; for (unsigned j = 0; j < n; ++j) e += r.a[j] * Variable(j); e += r.b; return r.kind == 0 ? Constraint(e >= 0) : r.kind == 1 ? Constraint(e == 0) : Constraint(e <= 0); }
  Linear_Expression obj() const { Linear_Expression e; for (unsigned j = 0; j < n; ++j) e += c[j] * Variable(j); e += c0; return e; }
  // feasible set over a point whose integer coordinates are integer-sorted terms
  expr feasible(const Point& x, unsigned upto) const {
    expr f = bval(true);
    for (unsigned i = 0; i < upto && i < rows.size(); ++i) { expr v = rterm(rows[i].b); for (unsigned j = 0; j < n; ++j) v = v + rterm(rows[i].a[j]) * x[j];
      f = f && (rows[i].kind == 0 ? v >= rval(0) : rows[i].kind == 1 ? v == rval(0) : v <= rval(0)); }
    return f;
  }
  expr objective(const Point& x) const { expr v = rterm(c0); for (unsigned j = 0; j < n; ++j) v = v + rterm(c[j]) * x[j]; return v; }
  Point fresh_point(const char* base) const { Point p; for (unsigned j = 0; j < n; ++j) p.push_back(is_int[j] ? z3::to_real(symrt::fresh_int(base)) : symrt::fresh_real(base)); return p; }
};
Prob make_problem(unsigned n, unsigned m, long B, long Bb, long Bc, bool ints) {
  Prob p; p.n = n;
  for (unsigned i = 0; i < m; ++i) { Row r; for (unsigned j = 0; j < n; ++j) r.a.push_back(symrt::cinput(S("a", i, j), -B, B)); r.b = symrt::input(S("b", i), -Bb, Bb); r.kind = symrt::choose(S("kind", i), 3); p.rows.push_back(r); }
  if (symrt::flag("nonneg")) for (unsigned j = 0; j < n; ++j) { Row r; for (unsigned k = 0; k < n; ++k) r.a.push_back(mpz_class(k == j ? 1 : 0)); r.b = 0; r.kind = 0; p.rows.push_back(r); }
  for (unsigned j = 0; j < n; ++j) p.c.push_back(symrt::cinput(S("c", j), -Bc, Bc));
  { long c0B = symrt::param("c0B", 0); p.c0 = symrt::cinput("c0", -c0B, c0B); }
  for (unsigned j = 0; j < n; ++j) p.is_int.push_back(ints ? symrt::flag(S("int", j)) : false);
  p.maximize = symrt::flag("max");
  return p;
}
MIP_Problem::Control_Parameter_Value pricing(int k) { return k == 0 ? MIP_Problem::PRICING_TEXTBOOK : k == 1 ? MIP_Problem::PRICING_STEEPEST_EDGE_EXACT : MIP_Problem::PRICING_STEEPEST_EDGE_FLOAT; }

// Check the answers of `mip' against the problem made of the first `upto' rows of p.
void check_answers(MIP_Problem& mip, const Prob& p, unsigned upto, const std::string& tag) {
  unsigned n = p.n;
  MIP_Problem_Status st = mip.solve();
  symrt::note(std::string("status=") + (st == UNFEASIBLE_MIP_PROBLEM ? "unfeasible" : st == UNBOUNDED_MIP_PROBLEM ? "unbounded" : "optimized"));
  bool sat = mip.is_satisfiable();
  symrt::require(sat == (st != UNFEASIBLE_MIP_PROBLEM), tag + ": is_satisfiable() disagrees with solve()");
  symrt::Batch b;
  if (st == UNFEASIBLE_MIP_PROBLEM) { Point x = p.fresh_point("x"); b.add(!p.feasible(x, upto), tag + ": UNFEASIBLE but a feasible point exists"); b.flush(); return; }
  // witness point helpers
  auto as_point = [&](const Generator& g, expr& ok) { Point q; Coefficient d = g.divisor(); ok = rterm(d) > rval(0);
    for (unsigned j = 0; j < n; ++j) { Coefficient cj = j < g.space_dimension() ? g.coefficient(Variable(j)) : Coefficient(0); q.push_back(rterm(cj) / rterm(d));
      if (p.is_int[j]) ok = ok && (symrt::term(cj) - (symrt::term(cj) / symrt::term(d)) * symrt::term(d) == ival(0)); }
    return q; };
  { Generator fp = mip.feasible_point(); symrt::require(fp.is_point(), tag + ": feasible_point() is not a point");
    expr ok = bval(true); Point q = as_point(fp, ok); b.add(ok && p.feasible(q, upto), tag + ": feasible_point() is not feasible / integral"); }
  if (st == OPTIMIZED_MIP_PROBLEM) {
    Generator op = mip.optimizing_point(); symrt::require(op.is_point(), tag + ": optimizing_point() is not a point");
    expr ok = bval(true); Point q = as_point(op, ok);
    b.add(ok && p.feasible(q, upto), tag + ": optimizing_point() is not feasible / integral");
    Coefficient num, den; mip.optimal_value(num, den);
    b.add(rterm(den) > rval(0) && p.objective(q) * rterm(den) == rterm(num), tag + ": optimal_value() is not the objective at the optimizing point");
    Coefficient en, ed; mip.evaluate_objective_function(op, en, ed);
    b.add(rterm(en) * rterm(den) == rterm(num) * rterm(ed), tag + ": evaluate_objective_function() disagrees with optimal_value()");
    Point x = p.fresh_point("x");
    expr better = p.maximize ? p.objective(x) * rterm(den) > rterm(num) : p.objective(x) * rterm(den) < rterm(num);
    b.add(!(p.feasible(x, upto) && better), tag + ": OPTIMIZED but a feasible point is better");
  }
  else {
    // UNBOUNDED: the LP relaxation must have no dual feasible solution (Meyer: a feasible rational MIP is unbounded iff its relaxation is)
    std::vector<expr> y; expr f = bval(true);
    unsigned rows = upto < p.rows.size() ? upto : p.rows.size();
    for (unsigned i = 0; i < rows; ++i) { y.push_back(symrt::fresh_real("y"));
      // maximize c.x s.t. a.x + b >= 0:  c = -sum y_i a_i with y_i >= 0 (for '>='), y_i <= 0 (for '<='), free (for '=')
      expr sgn = p.maximize ? rval(1) : rval(-1);
      if (p.rows[i].kind == 0) f = f && sgn * y[i] >= rval(0); else if (p.rows[i].kind == 2) f = f && sgn * y[i] <= rval(0); }
    for (unsigned j = 0; j < n; ++j) { expr s = rterm(p.c[j]); for (unsigned i = 0; i < rows; ++i) s = s + y[i] * rterm(p.rows[i].a[j]); f = f && s == rval(0); }
    b.add(!f, tag + ": UNBOUNDED but the linear relaxation has a dual feasible solution (bounded)");
  }
  b.flush();
  symrt::require(mip.OK(), tag + ": OK()");
}
}

SYMRT_HARNESS(C06_solve) {
  unsigned n = symrt::param("n", 2), m = symrt::param("m", 2);
  long B = symrt::param("B", 1), Bb = symrt::param("Bb", 4), Bc = symrt::param("Bc", 1);
  Prob p = make_problem(n, m, B, Bb, Bc, symrt::param("ints", 1) != 0);
  MIP_Problem mip(n);
  for (auto& r : p.rows) mip.add_constraint(p.con(r));
  mip.set_objective_function(p.obj());
  mip.set_optimization_mode(p.maximize ? MAXIMIZATION : MINIMIZATION);
  Variables_Set iv; for (unsigned j = 0; j < n; ++j) if (p.is_int[j]) iv.insert(Variable(j));
  if (!iv.empty()) mip.add_to_integer_space_dimensions(iv);
  mip.set_control_parameter(pricing(symrt::param("pricing", 0)));
  check_answers(mip, p, p.rows.size(), "C06");
}

// Incremental: solve a prefix of the rows, then add the rest / change the objective or the mode, and solve again;
// the answers must satisfy the oracle for the final data and agree with a fresh problem.
SYMRT_HARNESS(C06_incremental) {
  unsigned n = symrt::param("n", 2), m = symrt::param("m", 2);
  long B = symrt::param("B", 1), Bb = symrt::param("Bb", 4), Bc = symrt::param("Bc", 1);
  Prob p = make_problem(n, m, B, Bb, Bc, symrt::param("ints", 0) != 0);
  unsigned first = symrt::choose("first", m);      // rows present at the first solve
  int change = symrt::choose("change", 4);        // 0: only rows, 1: also new objective, 2: also flip mode, 3: also mark integers afterwards
  bool grow = symrt::param("grow", 0) && n >= 2 && symrt::flag("grow");   // the last variable is added after the first solve
  MIP_Problem mip(grow ? n - 1 : n);
  std::vector<bool> fed(p.rows.size(), false);
  for (unsigned i = 0; i < first; ++i) { if (grow && p.rows[i].a[n - 1] != 0) continue; if (grow) { Linear_Expression e; for (unsigned j = 0; j + 1 < n; ++j) e += p.rows[i].a[j] * Variable(j); e += p.rows[i].b; mip.add_constraint(p.rows[i].kind == 0 ? Constraint(e >= 0) : p.rows[i].kind == 1 ? Constraint(e == 0) : Constraint(e <= 0)); } else mip.add_constraint(p.con(p.rows[i])); fed[i] = true; }
  if (grow) {
    // first solve on the smaller space (objective restricted to the old variables), then embed and add the rest
    { Linear_Expression o; for (unsigned j = 0; j + 1 < n; ++j) o += p.c[j] * Variable(j); o += p.c0; mip.set_objective_function(o); } mip.set_optimization_mode(p.maximize ? MAXIMIZATION : MINIMIZATION);
    mip.set_control_parameter(pricing(symrt::param("pricing", 0)));
    int warm = symrt::choose("gwarm", 2); if (warm == 0) (void) mip.solve(); else (void) mip.is_satisfiable();
    mip.add_space_dimensions_and_embed(1);
    for (unsigned i = 0; i < p.rows.size(); ++i) if (!fed[i]) mip.add_constraint(p.con(p.rows[i]));
    mip.set_objective_function(p.obj());
    Variables_Set iv; for (unsigned j = 0; j < n; ++j) if (p.is_int[j]) iv.insert(Variable(j)); if (!iv.empty()) mip.add_to_integer_space_dimensions(iv);
    check_answers(mip, p, p.rows.size(), "C06 incremental (add_space_dimensions_and_embed)");
    return;
  }
  Prob p0 = p;
  if (change == 1) { p0.c.assign(n, mpz_class(0)); p0.c[0] = 1; p0.c0 = 0; }
  if (change == 2) p0.maximize = !p.maximize;
  if (change == 3) p0.is_int.assign(n, false);
  mip.set_objective_function(p0.obj());
  mip.set_optimization_mode(p0.maximize ? MAXIMIZATION : MINIMIZATION);
  Variables_Set iv0; for (unsigned j = 0; j < n; ++j) if (p0.is_int[j]) iv0.insert(Variable(j));
  if (!iv0.empty()) mip.add_to_integer_space_dimensions(iv0);
  mip.set_control_parameter(pricing(symrt::param("pricing", 0)));
  int warm = symrt::choose("warm", 3);            // 0: solve(), 1: is_satisfiable(), 2: nothing
  if (warm == 0) (void) mip.solve(); else if (warm == 1) (void) mip.is_satisfiable();
  for (unsigned i = first; i < p.rows.size(); ++i) mip.add_constraint(p.con(p.rows[i]));
  if (change == 1) mip.set_objective_function(p.obj());
  if (change == 2) mip.set_optimization_mode(p.maximize ? MAXIMIZATION : MINIMIZATION);
  if (change == 3) { Variables_Set iv; for (unsigned j = 0; j < n; ++j) if (p.is_int[j]) iv.insert(Variable(j)); if (!iv.empty()) mip.add_to_integer_space_dimensions(iv); }
  check_answers(mip, p, p.rows.size(), "C06 incremental");
  // differential against a fresh problem built from the final data
  MIP_Problem fresh(n);
  for (auto& r : p.rows) fresh.add_constraint(p.con(r));
  fresh.set_objective_function(p.obj());
  fresh.set_optimization_mode(p.maximize ? MAXIMIZATION : MINIMIZATION);
  Variables_Set iv; for (unsigned j = 0; j < n; ++j) if (p.is_int[j]) iv.insert(Variable(j));
  if (!iv.empty()) fresh.add_to_integer_space_dimensions(iv);
  MIP_Problem_Status s1 = mip.solve(), s2 = fresh.solve();
  symrt::require(s1 == s2, "C06 incremental: status differs from a fresh problem");
  if (s1 == OPTIMIZED_MIP_PROBLEM && s2 == OPTIMIZED_MIP_PROBLEM) {
    Coefficient n1, d1, n2, d2; mip.optimal_value(n1, d1); fresh.optimal_value(n2, d2);
    symrt::check(rterm(n1) * rterm(d2) == rterm(n2) * rterm(d1), "C06 incremental: optimal value differs from a fresh problem");
  }
}
