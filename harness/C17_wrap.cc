// C17: integer-aware operators never discard an integer point of the concrete semantics.
#include "shapes.hh"
using namespace sh;

namespace {
template <typename D> struct Mk { static D* make(unsigned n) { return new D(n); } };
template <typename D> struct Traits2 { };

template <typename D>
void run_wrap(const char* name) {
  unsigned n = symrt::param("n", 1); long Bb = symrt::param("Bb", 300);
  bool rel = symrt::param("rel", 0) != 0;
  std::unique_ptr<D> d(Mk<D>::make(n)); RefSet R(n);
  // each dimension gets symbolic lower/upper bounds (possibly absent)
  for (unsigned j = 0; j < n; ++j) {
    int have = symrt::choose(S("have", j), 3);          // 0: both bounds, 1: only lower, 2: only upper
    if (have != 2) { mpz_class lo = symrt::input(S("lo", j), -Bb, Bb); d->add_constraint(Variable(j) >= lo); std::vector<expr> a(n, ival(0)); a[j] = ival(1); R.add(a, -term(lo), 1); }
    if (have != 1) { // upper bound hi/den with den in {1,2}: rational (non-integer) bounds are arguments too
      long den = symrt::param("halves", 1) && symrt::flag(S("half", j)) ? 2 : 1;
      mpz_class hi = symrt::input(S("hi", j), -Bb * den, Bb * den);
      if (den == 1) d->refine_with_constraint(den * Variable(j) <= hi); else d->refine_with_constraint(den * Variable(j) <= hi);
      std::vector<expr> a(n, ival(0)); a[j] = ival(-den); R.add(a, term(hi), 1); }
  }
  if (rel && n >= 2) { mpz_class c = symrt::input("relc", -Bb, Bb); d->refine_with_constraint(Variable(0) - Variable(1) <= c); std::vector<expr> a(n, ival(0)); a[0] = ival(-1); a[1] = ival(1); R.add(a, term(c), 1); }
  bool is_signed = symrt::flag("signed");
  int ov = symrt::choose("overflow", 3);
  bool indiv = symrt::flag("individually");
  unsigned thr = symrt::flag("thr0") ? 0 : 16;
  long lo_r = is_signed ? -128 : 0, hi_r = is_signed ? 127 : 255;
  Variables_Set vars; unsigned nv = symrt::param("nvars", n); for (unsigned j = 0; j < nv; ++j) vars.insert(Variable(j));
  Constraint_System guard; RefSet G(n); bool has_guard = symrt::flag("guard");
  if (has_guard) { mpz_class gc = symrt::input("gc", lo_r, hi_r); guard.insert(Variable(0) <= gc); std::vector<expr> a(n, ival(0)); a[0] = ival(-1); G.add(a, term(gc), 1); }
  D res(*d);
  res.wrap_assign(vars, BITS_8, is_signed ? SIGNED_2_COMPLEMENT : UNSIGNED, ov == 0 ? OVERFLOW_WRAPS : ov == 1 ? OVERFLOW_UNDEFINED : OVERFLOW_IMPOSSIBLE, has_guard ? &guard : 0, thr, indiv);
  oracle::CsSet rs = reported(res);
  // p: a point of the argument with integer wrapped coordinates; q: its concrete image
  Point p, q; expr side = bval(true);
  for (unsigned j = 0; j < n; ++j) {
    if (j < nv) {
      expr pj = z3::to_real(symrt::fresh_int("p")); p.push_back(pj);
      expr in_range = pj >= rval(lo_r) && pj <= rval(hi_r);
      if (ov == 0) { expr k = z3::to_real(symrt::fresh_int("k")); expr qj = pj - k * rval(256); side = side && qj >= rval(lo_r) && qj <= rval(hi_r); q.push_back(qj); }
      else if (ov == 1) { expr qj = z3::to_real(symrt::fresh_int("q")); side = side && qj >= rval(lo_r) && qj <= rval(hi_r) && z3::implies(in_range, qj == pj); q.push_back(qj); }
      else { side = side && in_range; q.push_back(pj); }
    }
    else { expr pj = symrt::fresh_real("p"); p.push_back(pj); q.push_back(pj); }
  }
  symrt::check(!(R.contains(p) && side && G.contains(q) && !rs.contains(q)), std::string("C17 ") + name + ": wrap_assign discarded the wrapped image of an integer point");
  symrt::require(res.OK(), std::string("C17 ") + name + ": OK()");
}
template <typename D>
void run_drop(const char* name) {
  unsigned n = symrt::param("n", 2); long Bb = symrt::param("Bb", 3), B = symrt::param("B", 2);
  std::unique_ptr<D> d(Mk<D>::make(n)); RefSet R(n);
  unsigned m = symrt::param("m", 2);
  for (unsigned i = 0; i < m; ++i) { SymRow r = sym_row(S("c", i), n, B, Bb, 2); d->refine_with_constraint(row_constraint(r)); }
  // the refined element is the argument: its own reported constraints are the reference
  RefSet A = as_refset(d->constraints(), n);
  D res(*d);
  bool all = symrt::flag("all"); unsigned nv = all ? n : 1;
  if (all) res.drop_some_non_integer_points(); else { Variables_Set vs; vs.insert(Variable(0)); res.drop_some_non_integer_points(vs); }
  oracle::CsSet rs = reported(res);
  Point p; for (unsigned j = 0; j < n; ++j) p.push_back(j < nv ? z3::to_real(symrt::fresh_int("p")) : symrt::fresh_real("p"));
  symrt::Batch b;
  b.add(!(A.contains(p) && !rs.contains(p)), std::string("C17 ") + name + ": drop_some_non_integer_points removed an integer point");
  Point x = oracle::fresh_point(n);
  b.add(!(rs.contains(x) && !A.contains(x)), std::string("C17 ") + name + ": drop_some_non_integer_points enlarged the element");
  b.flush();
  // contains_integer_point: exact
  bool cip = d->contains_integer_point();
  Point ip; for (unsigned j = 0; j < n; ++j) ip.push_back(z3::to_real(symrt::fresh_int("ip")));
  if (!cip) symrt::check(!A.contains(ip), std::string("C17 ") + name + ": contains_integer_point() is false but an integer point exists");
  symrt::note(cip ? "cip=1" : "cip=0");
}
}
SYMRT_HARNESS(C17_wrap_poly) { run_wrap<C_Polyhedron>("C_Polyhedron"); }
SYMRT_HARNESS(C17_wrap_nnc) { run_wrap<NNC_Polyhedron>("NNC_Polyhedron"); }
SYMRT_HARNESS(C17_wrap_box) { run_wrap<Rational_Box>("Rational_Box"); }
SYMRT_HARNESS(C17_wrap_bds) { run_wrap<BD_Shape<mpq_class> >("BD_Shape<mpq>"); }
SYMRT_HARNESS(C17_wrap_oct) { run_wrap<Octagonal_Shape<mpq_class> >("Octagonal_Shape<mpq>"); }
SYMRT_HARNESS(C17_drop_poly) { run_drop<C_Polyhedron>("C_Polyhedron"); }
SYMRT_HARNESS(C17_drop_bds) { run_drop<BD_Shape<mpq_class> >("BD_Shape<mpq>"); }
SYMRT_HARNESS(C17_drop_oct) { run_drop<Octagonal_Shape<mpq_class> >("Octagonal_Shape<mpq>"); }
SYMRT_HARNESS(C17_drop_box) { run_drop<Rational_Box>("Rational_Box"); }
