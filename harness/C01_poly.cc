// C01: a polyhedron answers every query from one point set, whatever its history.
#include "poly_oracle.hh"
using namespace hc;

// Built from symbolic constraints, with observers interleaved (lazy states).
SYMRT_HARNESS(C01_from_constraints) {
  unsigned n = symrt::param("n", 2), m = symrt::param("m", 2);
  long B = symrt::param("B", 1), Bb = symrt::param("Bb", B);
  bool nnc = symrt::param("nnc", 0) != 0;
  int ops = symrt::param("ops", 1);
  int query = symrt::param("query", 0);     // 0: descriptions + Boolean queries, 1: optima, 2: relation_with(Constraint), 3: rel(Generator), 4: rel(Congruence)
  Polyhedron* php = nnc ? static_cast<Polyhedron*>(new NNC_Polyhedron(n)) : static_cast<Polyhedron*>(new C_Polyhedron(n));
  std::unique_ptr<Polyhedron> guard(php);
  Polyhedron& ph = *php;
  RefSet R(n);
  for (unsigned i = 0; i < m; ++i) {
    SymRow r = sym_row(S("c", i), n, B, Bb, nnc ? 3 : 2);
    ph.add_constraint(row_constraint(r));
    ref_add(R, r);
    if (ops && i + 1 < m) {
      int op = symrt::choose(S("op", i), 4);
      if (op == 1) (void) ph.generators();
      else if (op == 2) (void) ph.minimized_constraints();
      else if (op == 3) (void) ph.is_empty();
    }
  }
  note_status("poly", ph);
  if (query == 0) {
    check_descriptions(ph, R, "C01");
    check_bool_queries(ph, R, "C01");
    // const-ness: observers did not change the set
    Point x = oracle::fresh_point(n);
    symrt::check(R.contains(x) == oracle::in_cs(ph.constraints(), x), "C01: set changed by observers");
    symrt::require(ph.OK(), "C01: OK() after observers");
  }
  else if (query == 1) {
    std::vector<mpz_class> ea; for (unsigned j = 0; j < n; ++j) ea.push_back(symrt::input(S("e", j), -B, B));
    mpz_class eb = symrt::input("eb", -B, B);
    check_optima(ph, R, ea, eb, "C01");
  }
  else if (query == 2) {
    SymRow c = sym_row("q", n, B, Bb, nnc ? 3 : 2);
    check_relation_with_constraint(ph, R, c, "C01");
  }
  else if (query == 3) {
    std::vector<mpz_class> gc; for (unsigned j = 0; j < n; ++j) gc.push_back(symrt::input(S("g", j), -B - 1, B + 1));
    int gk = symrt::choose("gkind", nnc ? 4 : 3);
    mpz_class gd = (gk == 0 || gk == 3) ? symrt::input("gd", 1, 3) : mpz_class(1);
    if (gk == 1 || gk == 2) { expr nz = bval(false); for (auto& c : gc) nz = nz || term(c) != ival(0); symrt::assume(nz); }
    check_relation_with_generator(ph, R, gc, gd, gk, "C01");
  }
  else if (query == 4) {
    std::vector<mpz_class> ea; for (unsigned j = 0; j < n; ++j) ea.push_back(symrt::input(S("e", j), -B, B));
    mpz_class eb = symrt::input("eb", -B, B); mpz_class mm = symrt::choose("mod", 4);
    check_relation_with_congruence(ph, R, ea, eb, mm, "C01");
  }
}
