// C01: a polyhedron answers every query from one point set, whatever its history.
#include "poly_oracle.hh"
using namespace hc;

// Built from symbolic constraints, with observers interleaved (lazy states).
SYMRT_HARNESS(C01_from_constraints) {
  unsigned n = symrt::param("n", 2), m = symrt::param("m", 2);
  long B = symrt::param("B", 1), Bb = symrt::param("Bb", B);
  bool nnc = symrt::param("nnc", 0) != 0;
  int ops = symrt::param("ops", 1);
  int query = symrt::param("query", 0);     // 0: descriptions + Boolean queries, 1: optima, 2: relation_with(Constraint), 3: rel(Generator), 4: rel(Congruence)
  Polyhedron* php = nnc ? static_cast<Polyhedron*>(new NNC_Polyhedron(n)) : static_cast<Polyhedron*>(new C_Polyhedron(n));
  std::unique_ptr<Polyhedron> guard(php);
  Polyhedron& ph = *php;
  RefSet R(n);
  for (unsigned i = 0; i < m; ++i) {
    SymRow r = sym_row(S("c", i), n, B, Bb, nnc ? 3 : 2);
    ph.add_constraint(row_constraint(r));
    ref_add(R, r);
    if (ops && i + 1 < m) {
      int op = symrt::choose(S("op", i), 4);
      if (op == 1) (void) ph.generators();
      else if (op == 2) (void) ph.minimized_constraints();
      else if (op == 3) (void) ph.is_empty();
    }
  }
  note_status("poly", ph);
  if (query == 0) {
    check_descriptions(ph, R, "C01");
    check_bool_queries(ph, R, "C01");
    // const-ness: observers did not change the set
    Point x = oracle::fresh_point(n);
    symrt::check(R.contains(x) == oracle::in_cs(ph.constraints(), x), "C01: set changed by observers");
    symrt::require(ph.OK(), "C01: OK() after observers");
  }
  else if (query == 1) {
    std::vector<mpz_class> ea; for (unsigned j = 0; j < n; ++j) ea.push_back(symrt::input(S("e", j), -B, B));
    mpz_class eb = symrt::input("eb", -B, B);
    check_optima(ph, R, ea, eb, "C01");
  }
  else if (query == 2) {
    SymRow c = sym_row("q", n, B, Bb, nnc ? 3 : 2);
    check_relation_with_constraint(ph, R, c, "C01");
  }
  else if (query == 3) {
    std::vector<mpz_class> gc; for (unsigned j = 0; j < n; ++j) gc.push_back(symrt::input(S("g", j), -B - 1, B + 1));
    int gk = symrt::choose("gkind", nnc ? 4 : 3);
    mpz_class gd = (gk == 0 || gk == 3) ? symrt::input("gd", 1, 3) : mpz_class(1);
    if (gk == 1 || gk == 2) { expr nz = bval(false); for (auto& c : gc) nz = nz || term(c) != ival(0); symrt::assume(nz); }
    check_relation_with_generator(ph, R, gc, gd, gk, "C01");
  }
  else if (query == 4) {
    std::vector<mpz_class> ea; for (unsigned j = 0; j < n; ++j) ea.push_back(symrt::input(S("e", j), -B, B));
    mpz_class eb = symrt::input("eb", -B, B); mpz_class mm = symrt::choose("mod", 4);
    check_relation_with_congruence(ph, R, ea, eb, mm, "C01");
  }
}

// Built from symbolic generators with observers and later additions interleaved:
// drives the pending-generator / minimized states.  The queries are asked FIRST, in
// the raw lazy state; then the descriptions are compared with the generated set and
// the recorded answers are judged against the (verified) constraint description.
SYMRT_HARNESS(C01_from_generators) {
  unsigned n = symrt::param("n", 2), k = symrt::param("k", 2);
  long B = symrt::param("B", 1);
  bool nnc = symrt::param("nnc", 0) != 0;
  using oracle::Gens; using oracle::Gen;
  Gens D(n);
  Generator_System gs0;
  { Linear_Expression e; Point c; mpz_class d = symrt::input("pd", 1, 2);
    for (unsigned j = 0; j < n; ++j) { mpz_class cj = symrt::input(S("p", j), -B, B); e += cj * Variable(j); c.push_back(rterm(cj) / rterm(d)); }
    gs0.insert(point(e, d)); D.g.push_back(Gen(0, c)); }
  Polyhedron* php = nnc ? static_cast<Polyhedron*>(new NNC_Polyhedron(gs0)) : static_cast<Polyhedron*>(new C_Polyhedron(gs0));
  std::unique_ptr<Polyhedron> guard(php);
  Polyhedron& ph = *php;
  for (unsigned i = 0; i < k; ++i) {
    int op = symrt::choose(S("op", i), 4);
    if (op == 1) (void) ph.minimized_constraints(); else if (op == 2) (void) ph.minimized_generators(); else if (op == 3) (void) ph.constraints();
    Linear_Expression e; Point c; expr nz = bval(false);
    for (unsigned j = 0; j < n; ++j) { mpz_class cj = symrt::input(S("g", i, j), -B, B); e += cj * Variable(j); c.push_back(rterm(cj)); nz = nz || term(cj) != ival(0); }
    int kind = symrt::choose(S("gk", i), nnc ? 4 : 3);   // 0 ray, 1 line, 2 point, 3 closure point
    if (kind <= 1) { symrt::assume(nz); if (kind == 0) { ph.add_generator(ray(e)); D.g.push_back(Gen(2, c)); } else { ph.add_generator(line(e)); D.g.push_back(Gen(3, c)); } }
    else if (kind == 2) { ph.add_generator(point(e)); D.g.push_back(Gen(0, c)); }
    else { ph.add_generator(closure_point(e)); D.g.push_back(Gen(1, c)); }
  }
  note_status("poly", ph);
  Answers ans = grab_answers(ph);           // raw lazy state
  // descriptions vs the generated set
  oracle::CsSet rs(ph.constraints(), n);
  symrt::Batch b;
  b.add(D.inside([&](const Point& p) { return rs.contains(p); }, [&](const Point& p) { return rs.closure_contains(p); }, [&](const Point& d) { return rs.recedes(d); }), "C01 gens: constraints() do not contain the generated set");
  { Point x = oracle::fresh_point(n); b.add(!(rs.contains(x) && D.not_in(x)), "C01 gens: constraints() larger than the generated set"); }
  { oracle::CsSet ms(ph.minimized_constraints(), n); Point x = oracle::fresh_point(n); b.add(rs.contains(x) == ms.contains(x), "C01 gens: minimized_constraints() differ from constraints()"); }
  { Gens G = Gens::from(ph.minimized_generators(), n); Point x = oracle::fresh_point(n);
    b.add(G.inside([&](const Point& p) { return rs.contains(p); }, [&](const Point& p) { return rs.closure_contains(p); }, [&](const Point& d) { return rs.recedes(d); }), "C01 gens: minimized_generators() outside constraints()");
    b.add(!(rs.contains(x) && G.not_in(x)), "C01 gens: constraints() outside minimized_generators()"); }
  b.flush();
  // the recorded answers against the verified constraint description
  RefSet R(n);
  { Constraint_System cs = ph.constraints();
    for (Constraint_System::const_iterator c = cs.begin(); c != cs.end(); ++c) { std::vector<expr> a; for (unsigned j = 0; j < n; ++j) { Coefficient kk = j < c->space_dimension() ? c->coefficient(Variable(j)) : Coefficient(0); a.push_back(term(kk)); }
      Coefficient b0 = c->inhomogeneous_term(); R.add(a, term(b0), c->is_equality() ? 0 : c->is_strict_inequality() ? 2 : 1); } }
  check_bool_queries(ph, R, "C01 gens", &ans);
  Answers again = grab_answers(ph);
  symrt::require(again.empty == ans.empty && again.univ == ans.univ && again.bounded == ans.bounded && again.closed == ans.closed, "C01 gens: a query changed its answer after the object was observed");
  symrt::require(ph.OK(), "C01 gens: OK()");
}
