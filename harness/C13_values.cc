// C13: objects are values -- copies are independent and aliased arguments are safe.
#include "shapes.hh"
using namespace sh;

namespace {
template <typename D> D* build(const std::string& pfx, unsigned n, unsigned m, long Bb, RefSet& R);
template <> C_Polyhedron* build<C_Polyhedron>(const std::string& pfx, unsigned n, unsigned m, long Bb, RefSet& R) {
  C_Polyhedron* p = new C_Polyhedron(n);
  for (unsigned i = 0; i < m; ++i) { SymRow r = sym_row(S(pfx, i), n, 1, Bb, 2); p->add_constraint(row_constraint(r)); ref_add(R, r); }
  return p;
}
template <> NNC_Polyhedron* build<NNC_Polyhedron>(const std::string& pfx, unsigned n, unsigned m, long Bb, RefSet& R) {
  NNC_Polyhedron* p = new NNC_Polyhedron(n);
  for (unsigned i = 0; i < m; ++i) { SymRow r = sym_row(S(pfx, i), n, 1, Bb, 3); p->add_constraint(row_constraint(r)); ref_add(R, r); }
  return p;
}
template <typename D> D* build_shape(const std::string& pfx, unsigned n, unsigned m, long Bb, RefSet& R) {
  D* d = new D(n);
  for (unsigned k = 0; k < m; ++k) { SymShapeRow r = sym_shape_row(S(pfx, k), n, Traits<D>::fam, Bb, Open_OK<D>::value); d->add_constraint(shape_constraint(r)); ref_add_shape(R, r); }
  return d;
}
template <> BD_Shape<mpq_class>* build<BD_Shape<mpq_class> >(const std::string& pfx, unsigned n, unsigned m, long Bb, RefSet& R) { return build_shape<BD_Shape<mpq_class> >(pfx, n, m, Bb, R); }
template <> Octagonal_Shape<mpq_class>* build<Octagonal_Shape<mpq_class> >(const std::string& pfx, unsigned n, unsigned m, long Bb, RefSet& R) { return build_shape<Octagonal_Shape<mpq_class> >(pfx, n, m, Bb, R); }
template <> Rational_Box* build<Rational_Box>(const std::string& pfx, unsigned n, unsigned m, long Bb, RefSet& R) { return build_shape<Rational_Box>(pfx, n, m, Bb, R); }

template <typename D> void apply(D& x, const D& y, int op) {
  static const char* names[8] = { "intersection_assign", "upper_bound_assign", "difference_assign", "time_elapse_assign", "concatenate_assign", "simplify_using_context_assign", "upper_bound_assign_if_exact", "upper_bound_assign+widening_assign" };
  symrt::at(names[op]);
  switch (op) {
  case 0: x.intersection_assign(y); break;
  case 1: x.upper_bound_assign(y); break;
  case 2: x.difference_assign(y); break;
  case 3: x.time_elapse_assign(y); break;
  case 4: x.concatenate_assign(y); break;
  case 5: (void) x.simplify_using_context_assign(y); break;
  case 6: (void) x.upper_bound_assign_if_exact(y); break;
  case 7: x.upper_bound_assign(y); x.widening_assign(y); break;    // the widening requires its argument to be contained in the receiver
  }
}
template <typename D> expr set_of(const D& d, const Point& x) { return oracle::in_cs(d.constraints(), x); }

template <typename D>
void run(const char* name) {
  unsigned n = symrt::param("n", 2), m = symrt::param("m", 2); long Bb = symrt::param("Bb", 2);
  int op = symrt::param("op", 0);
  std::string tag = std::string("C13 ") + name + S(" op", op);
  RefSet RX(n); std::unique_ptr<D> x(build<D>("x", n, m, Bb, RX));
  int state = symrt::choose("state", 3);
  if (state == 1) (void) x->is_empty(); else if (state == 2) (void) x->minimized_constraints();
  // (a) aliased call == call on an equal copy
  D aliased(*x); apply(aliased, aliased, op);
  D fresh(*x); { D arg(*x); apply(fresh, arg, op); }
  { Point p = oracle::fresh_point(aliased.space_dimension()); symrt::check(set_of(aliased, p) == set_of(fresh, p), tag + ": x.op(x) differs from x.op(copy of x)"); }
  symrt::require(aliased.OK(), tag + ": OK() after the aliased call");
  // (b) a const argument keeps its value; bystander copies keep theirs
  RefSet RY(n); std::unique_ptr<D> y(build<D>("y", n, 1, Bb, RY));
  D bystander(*x), ycopy(*y);
  D r(*x); apply(r, *y, op);
  symrt::Batch b;
  { Point p = oracle::fresh_point(n); b.add(set_of(*y, p) == RY.contains(p), tag + ": the const argument changed"); }
  { Point p = oracle::fresh_point(n); b.add(set_of(bystander, p) == RX.contains(p), tag + ": a copy of the receiver changed"); }
  { Point p = oracle::fresh_point(n); b.add(set_of(*x, p) == RX.contains(p), tag + ": the source of a copy changed"); }
  // (c) assignment, self-assignment, swap, self-swap
  D z(n); z = r; z = z; { D& zr = z; zr = *&z; }
  using std::swap; swap(z, z);
  { Point p = oracle::fresh_point(r.space_dimension()); b.add(set_of(z, p) == set_of(r, p), tag + ": assignment / self-assignment / self-swap changed the value"); }
  D w(*y); swap(z, w);
  { Point p = oracle::fresh_point(r.space_dimension()); b.add(set_of(w, p) == set_of(r, p), tag + ": swap lost a value"); }
  { Point p = oracle::fresh_point(n); b.add(set_of(z, p) == RY.contains(p), tag + ": swap lost a value (second object)"); }
  // (d) mutating the result does not reach the objects it was computed from
  r.unconstrain(Variable(0));
  { Point p = oracle::fresh_point(n); b.add(set_of(ycopy, p) == RY.contains(p) && set_of(*y, p) == RY.contains(p), tag + ": mutating the result changed an argument"); }
  b.flush();
  symrt::require(x->OK() && y->OK() && r.OK() && z.OK() && w.OK(), tag + ": OK()");
}
}
SYMRT_HARNESS(C13_poly) { run<C_Polyhedron>("C_Polyhedron"); }
SYMRT_HARNESS(C13_nnc) { run<NNC_Polyhedron>("NNC_Polyhedron"); }
SYMRT_HARNESS(C13_bds) { run<BD_Shape<mpq_class> >("BD_Shape<mpq>"); }
SYMRT_HARNESS(C13_oct) { run<Octagonal_Shape<mpq_class> >("Octagonal_Shape<mpq>"); }
SYMRT_HARNESS(C13_box) { run<Rational_Box>("Rational_Box"); }

// Linear expressions and systems: aliasing in the arithmetic and insertion entry points.
SYMRT_HARNESS(C13_linear) {
  unsigned n = symrt::param("n", 2); long B = symrt::param("B", 3);
  std::vector<mpz_class> a; Linear_Expression e;
  for (unsigned j = 0; j < n; ++j) { a.push_back(symrt::input(S("a", j), -B, B)); e += a[j] * Variable(j); }
  mpz_class b0 = symrt::input("b", -B, B); e += b0;
  mpz_class k = symrt::input("k", -B, B);
  Linear_Expression copy(e);
  Linear_Expression s(e); s += s;               // 2e
  Linear_Expression d(e); d -= d;               // 0
  Linear_Expression t(e); t = t;                // e
  Linear_Expression u(e); u *= k; u += e;       // (k+1) e
  Linear_Expression v(e); add_mul_assign(v, k, Variable(0));
  symrt::Batch bt;
  for (unsigned j = 0; j < n; ++j) {
    Coefficient cs = s.coefficient(Variable(j)), cd = d.coefficient(Variable(j)), ct = t.coefficient(Variable(j)), cu = u.coefficient(Variable(j)), cc = copy.coefficient(Variable(j)), cv = v.coefficient(Variable(j));
    bt.add(term(cs) == ival(2) * term(a[j]), "C13 linear: e += e");
    bt.add(term(cd) == ival(0), "C13 linear: e -= e");
    bt.add(term(ct) == term(a[j]), "C13 linear: e = e");
    bt.add(term(cu) == (term(k) + ival(1)) * term(a[j]), "C13 linear: e *= k; e += e0");
    bt.add(term(cc) == term(a[j]), "C13 linear: a copy changed");
    bt.add(term(cv) == term(a[j]) + (j == 0 ? term(k) : ival(0)), "C13 linear: add_mul_assign");
  }
  { Coefficient cs = s.inhomogeneous_term(), cd = d.inhomogeneous_term(), cc = copy.inhomogeneous_term();
    bt.add(term(cs) == ival(2) * term(b0) && term(cd) == ival(0) && term(cc) == term(b0), "C13 linear: inhomogeneous terms"); }
  bt.flush();
  // inserting a system's own element / the system into itself
  Constraint_System cs; cs.insert(e >= 0); cs.insert(Variable(0) <= k);
  Constraint_System cs_copy(cs);
  cs.insert(*cs.begin());
  { Point p = oracle::fresh_point(n); symrt::check(oracle::in_cs(cs, p) == oracle::in_cs(cs_copy, p), "C13 linear: inserting a system's own constraint changed its meaning"); }
  C_Polyhedron ph(n); ph.add_constraints(cs_copy);
  const Constraint_System& own = ph.constraints();
  C_Polyhedron q(ph); q.add_constraints(q.constraints());
  (void) own;
  { Point p = oracle::fresh_point(n); symrt::check(oracle::in_cs(q.constraints(), p) == oracle::in_cs(cs_copy, p), "C13 linear: add_constraints(own constraints) changed the polyhedron"); }
  // recycling entry point: the donor stays destructible and unshared
  Constraint_System donor(cs_copy);
  C_Polyhedron rec(n); rec.add_recycled_constraints(donor);
  donor = Constraint_System(); donor.insert(Variable(0) == 7);
  { Point p = oracle::fresh_point(n); symrt::check(oracle::in_cs(rec.constraints(), p) == oracle::in_cs(cs_copy, p), "C13 linear: reusing the donor of add_recycled_constraints changed the recipient"); }
}
