// C12: interval arithmetic encloses every concrete result (rational intervals, exact bounds).
#include "common.hh"
using namespace hc;
typedef Rational_Interval ITV;

namespace {
struct SymItv { ITV itv; expr in; SymItv() : in(bval(true)) {} };
// membership of a real term in an interval, read through the public observers
expr member(const ITV& i, const expr& x) {
  if (i.is_empty()) return bval(false);
  expr f = bval(true);
  if (!i.lower_is_boundary_infinity()) { mpq_class l = i.lower(); f = f && (i.lower_is_open() ? x > rterm(l) : x >= rterm(l)); }
  if (!i.upper_is_boundary_infinity()) { mpq_class u = i.upper(); f = f && (i.upper_is_open() ? x < rterm(u) : x <= rterm(u)); }
  return f;
}
// a symbolic interval: each bound absent / closed / open, values symbolic; may be empty
SymItv sym_itv(const std::string& pfx, long B) {
  SymItv s;
  int lk = symrt::choose(pfx + "lk", 3), uk = symrt::choose(pfx + "uk", 3);   // 0: unbounded, 1: closed, 2: open
  mpz_class lo = lk ? symrt::input(pfx + "lo", -B, B) : mpz_class(0), hi = uk ? symrt::input(pfx + "hi", -B, B) : mpz_class(0);
  long den = symrt::param("halves", 0) && symrt::flag(pfx + "half") ? 2 : 1;
  mpq_class ql(lo, den), qh(hi, den); ql.canonicalize(); qh.canonicalize();
  if (lk && uk) s.itv.build(i_constraint(lk == 1 ? GREATER_OR_EQUAL : GREATER_THAN, ql), i_constraint(uk == 1 ? LESS_OR_EQUAL : LESS_THAN, qh));
  else if (lk) s.itv.build(i_constraint(lk == 1 ? GREATER_OR_EQUAL : GREATER_THAN, ql));
  else if (uk) s.itv.build(i_constraint(uk == 1 ? LESS_OR_EQUAL : LESS_THAN, qh));
  else s.itv.assign(UNIVERSE);
  return s;
}
expr in_sym(const SymItv& s, const std::string& pfx, const expr& x) { return member(s.itv, x); }
}

SYMRT_HARNESS(C12_binary) {
  long B = symrt::param("B", 3); int op = symrt::param("op", 0);
  SymItv a = sym_itv("a", B), b = sym_itv("b", B);
  // the constructed intervals denote what was fed (bounds read back)
  ITV r;
  std::string tag = S("C12 op", op);
  expr x = symrt::fresh_real("x"), y = symrt::fresh_real("y");
  expr ina = member(a.itv, x), inb = member(b.itv, y);
  symrt::Batch bt;
  switch (op) {
  case 0: r.add_assign(a.itv, b.itv); bt.add(!(ina && inb && !member(r, x + y)), tag + ": add_assign does not enclose x + y"); break;
  case 1: r.sub_assign(a.itv, b.itv); bt.add(!(ina && inb && !member(r, x - y)), tag + ": sub_assign does not enclose x - y"); break;
  case 2: r.mul_assign(a.itv, b.itv); bt.add(!(ina && inb && !member(r, x * y)), tag + ": mul_assign does not enclose x * y"); break;
  case 3: r.div_assign(a.itv, b.itv); bt.add(!(ina && inb && y != rval(0) && !member(r, x / y)), tag + ": div_assign does not enclose x / y"); break;
  case 4: r.neg_assign(a.itv); bt.add(!(ina && !member(r, -x)), tag + ": neg_assign does not enclose -x"); break;
  case 5: r = a.itv; r.join_assign(b.itv); bt.add(!((ina || member(b.itv, x)) && !member(r, x)), tag + ": join_assign lost a value"); break;
  case 6: r = a.itv; r.intersect_assign(b.itv); bt.add(member(r, x) == (ina && member(b.itv, x)), tag + ": intersect_assign is not the intersection"); break;
  case 7: r = a.itv; r.difference_assign(b.itv); bt.add(!(ina && !member(b.itv, x) && !member(r, x)), tag + ": difference_assign lost a value of the difference");
          bt.add(!(member(r, x) && !ina), tag + ": difference_assign is not contained in the first argument"); break;
  }
  bt.flush();
  // exactness for the operations whose exact result is an interval: every value of the result is obtained
  expr z = symrt::fresh_real("z");
  if (op == 0 || op == 1) {
    // z in r  ==>  exists x in a with (z -/+ x) in b : eliminate x exactly (1-D Helly on the two interval systems)
    std::vector<oracle::Row1> rows;
    auto add_rows = [&](const ITV& i, const expr& alpha, const expr& beta) {   // alpha*s + beta in i
      if (i.is_empty()) { rows.push_back(oracle::Row1(rval(0), rval(-1), 1)); return; }
      if (!i.lower_is_boundary_infinity()) { mpq_class l = i.lower(); rows.push_back(oracle::Row1(alpha, beta - rterm(l), i.lower_is_open() ? 2 : 1)); }
      if (!i.upper_is_boundary_infinity()) { mpq_class u = i.upper(); rows.push_back(oracle::Row1(-alpha, rterm(u) - beta, i.upper_is_open() ? 2 : 1)); } };
    add_rows(a.itv, rval(1), rval(0));
    if (op == 0) add_rows(b.itv, rval(-1), z); else add_rows(b.itv, rval(1), -z);
    symrt::check(z3::implies(member(r, z), oracle::exists1(rows)), tag + ": the result contains a value that is not obtained (not exact)");
  }
  if (op == 4) symrt::check(z3::implies(member(r, z), member(a.itv, -z)), tag + ": neg_assign is not exact");
  if (op == 5) { // join: the smallest interval containing both: every value of the result lies between two values of the union
    expr p = symrt::fresh_real("p"), q = symrt::fresh_real("q");
    z3::context& c = symrt::ctx(); expr bp = c.real_const("jp"), bq = c.real_const("jq"); z3::expr_vector bound(c); bound.push_back(bp); bound.push_back(bq);
    symrt::check(z3::implies(member(r, z), z3::exists(bound, (member(a.itv, bp) || member(b.itv, bp)) && (member(a.itv, bq) || member(b.itv, bq)) && bp <= z && z <= bq)), tag + ": join_assign is not the smallest enclosing interval");
    (void) p; (void) q; }
  // flags: emptiness reported correctly
  if (op != 3) {
    bool should_be_empty_known = a.itv.is_empty() || ((op <= 3 || op == 6) && op != 5 && b.itv.is_empty() && op != 4);
    if (op <= 2 && (a.itv.is_empty() || b.itv.is_empty())) symrt::require(r.is_empty(), tag + ": an empty operand must give an empty result");
    (void) should_be_empty_known;
  }
  symrt::require(r.OK(), tag + ": OK()");
}

// refine_existential / refine_universal by a relation with a value
SYMRT_HARNESS(C12_refine) {
  long B = symrt::param("B", 3);
  SymItv a = sym_itv("a", B);
  int rk = symrt::choose("rel", 6);
  static const Relation_Symbol rs_t[6] = { EQUAL, LESS_THAN, LESS_OR_EQUAL, GREATER_THAN, GREATER_OR_EQUAL, NOT_EQUAL };
  mpz_class v = symrt::input("v", -B, B); mpq_class qv(v);
  auto relf = [&](const expr& l, const expr& r) { return rk == 0 ? l == r : rk == 1 ? l < r : rk == 2 ? l <= r : rk == 3 ? l > r : rk == 4 ? l >= r : l != r; };
  ITV r = a.itv; r.refine_existential(rs_t[rk], qv);
  expr x = symrt::fresh_real("x");
  // existential refinement by a point value keeps exactly the values related to it (an over-approximation is allowed for !=)
  symrt::Batch bt;
  bt.add(!(member(a.itv, x) && relf(x, rterm(qv)) && !member(r, x)), "C12 refine_existential lost a related value");
  bt.add(!(member(r, x) && !member(a.itv, x)), "C12 refine_existential enlarged the interval");
  if (rk != 5) bt.add(!(member(r, x) && !relf(x, rterm(qv))), "C12 refine_existential kept an unrelated value");
  bt.flush();
  symrt::require(r.OK(), "C12 refine: OK()");
}
