// Engine K kernels for C11: the real checked-arithmetic templates of src/checked_int_inlines.hh
// (through the generic Checked:: dispatch), one extern "C" wrapper per operation and type.
#include "ppl-config.h"
#include "version.hh"
#include "ppl_include_files.hh"
using namespace Parma_Polyhedra_Library;

#define WRAP_TYPE(T, SUF) \
  typedef Check_Overflow_Policy<T> P_##SUF; \
  typedef WRD_Extended_Number_Policy E_##SUF; \
  extern "C" __attribute__((noinline)) unsigned k_add_##SUF(T* to, T x, T y, unsigned dir) { return Checked::add<P_##SUF, P_##SUF, P_##SUF>(*to, x, y, (Rounding_Dir) dir); } \
  extern "C" __attribute__((noinline)) unsigned k_sub_##SUF(T* to, T x, T y, unsigned dir) { return Checked::sub<P_##SUF, P_##SUF, P_##SUF>(*to, x, y, (Rounding_Dir) dir); } \
  extern "C" __attribute__((noinline)) unsigned k_mul_##SUF(T* to, T x, T y, unsigned dir) { return Checked::mul<P_##SUF, P_##SUF, P_##SUF>(*to, x, y, (Rounding_Dir) dir); } \
  extern "C" __attribute__((noinline)) unsigned k_div_##SUF(T* to, T x, T y, unsigned dir) { return Checked::div<P_##SUF, P_##SUF, P_##SUF>(*to, x, y, (Rounding_Dir) dir); } \
  extern "C" __attribute__((noinline)) unsigned k_idiv_##SUF(T* to, T x, T y, unsigned dir) { return Checked::idiv<P_##SUF, P_##SUF, P_##SUF>(*to, x, y, (Rounding_Dir) dir); } \
  extern "C" __attribute__((noinline)) unsigned k_rem_##SUF(T* to, T x, T y, unsigned dir) { return Checked::rem<P_##SUF, P_##SUF, P_##SUF>(*to, x, y, (Rounding_Dir) dir); } \
  extern "C" __attribute__((noinline)) unsigned k_neg_##SUF(T* to, T x, unsigned dir) { return Checked::neg<P_##SUF, P_##SUF>(*to, x, (Rounding_Dir) dir); } \
  extern "C" __attribute__((noinline)) unsigned k_abs_##SUF(T* to, T x, unsigned dir) { return Checked::abs<P_##SUF, P_##SUF>(*to, x, (Rounding_Dir) dir); } \
  extern "C" __attribute__((noinline)) unsigned k_addmul_##SUF(T* to, T x, T y, unsigned dir) { return Checked::add_mul<P_##SUF, P_##SUF, P_##SUF>(*to, x, y, (Rounding_Dir) dir); } \
  extern "C" __attribute__((noinline)) unsigned k_submul_##SUF(T* to, T x, T y, unsigned dir) { return Checked::sub_mul<P_##SUF, P_##SUF, P_##SUF>(*to, x, y, (Rounding_Dir) dir); } \
  extern "C" __attribute__((noinline)) unsigned k_mul2exp_##SUF(T* to, T x, unsigned e, unsigned dir) { return Checked::mul_2exp<P_##SUF, P_##SUF>(*to, x, e, (Rounding_Dir) dir); } \
  extern "C" __attribute__((noinline)) unsigned k_div2exp_##SUF(T* to, T x, unsigned e, unsigned dir) { return Checked::div_2exp<P_##SUF, P_##SUF>(*to, x, e, (Rounding_Dir) dir); } \
  /* extended numbers (the bounds of BD shapes / octagons over a native T): rounding up, overflow to +infinity */ \
  typedef Checked_Number<T, WRD_Extended_Number_Policy> N_##SUF; \
  extern "C" __attribute__((noinline)) unsigned k_xadd_##SUF(T* to, T x, T y, unsigned dir) { N_##SUF r, a, b; raw_value(a) = x; raw_value(b) = y; unsigned res = add_assign_r(r, a, b, (Rounding_Dir) dir); *to = raw_value(r); return res; } \
  extern "C" __attribute__((noinline)) unsigned k_xsub_##SUF(T* to, T x, T y, unsigned dir) { N_##SUF r, a, b; raw_value(a) = x; raw_value(b) = y; unsigned res = sub_assign_r(r, a, b, (Rounding_Dir) dir); *to = raw_value(r); return res; } \
  extern "C" __attribute__((noinline)) unsigned k_xmul_##SUF(T* to, T x, T y, unsigned dir) { N_##SUF r, a, b; raw_value(a) = x; raw_value(b) = y; unsigned res = mul_assign_r(r, a, b, (Rounding_Dir) dir); *to = raw_value(r); return res; } \
  extern "C" __attribute__((noinline)) unsigned k_xdiv_##SUF(T* to, T x, T y, unsigned dir) { N_##SUF r, a, b; raw_value(a) = x; raw_value(b) = y; unsigned res = div_assign_r(r, a, b, (Rounding_Dir) dir); *to = raw_value(r); return res; } \
  extern "C" __attribute__((noinline)) unsigned k_xneg_##SUF(T* to, T x, unsigned dir) { N_##SUF r, a; raw_value(a) = x; unsigned res = neg_assign_r(r, a, (Rounding_Dir) dir); *to = raw_value(r); return res; } \
  extern "C" __attribute__((noinline)) unsigned k_xdiv2_##SUF(T* to, T x, unsigned dir) { N_##SUF r, a; raw_value(a) = x; unsigned res = div_2exp_assign_r(r, a, 1, (Rounding_Dir) dir); *to = raw_value(r); return res; }

WRAP_TYPE(signed char, i8)
WRAP_TYPE(unsigned char, u8)
WRAP_TYPE(short, i16)
WRAP_TYPE(unsigned short, u16)
WRAP_TYPE(int, i32)
WRAP_TYPE(unsigned int, u32)
WRAP_TYPE(long, i64)

// conversions between widths / signedness
#define WRAP_CONV(TO, FROM, SUF) \
  extern "C" __attribute__((noinline)) unsigned k_assign_##SUF(TO* to, FROM x, unsigned dir) { return Checked::assign<Check_Overflow_Policy<TO>, Check_Overflow_Policy<FROM> >(*to, x, (Rounding_Dir) dir); }
WRAP_CONV(signed char, int, i8_i32)
WRAP_CONV(unsigned char, int, u8_i32)
WRAP_CONV(signed char, unsigned int, i8_u32)
WRAP_CONV(short, int, i16_i32)
WRAP_CONV(unsigned short, int, u16_i32)
WRAP_CONV(int, long, i32_i64)
WRAP_CONV(unsigned int, long, u32_i64)
WRAP_CONV(int, unsigned int, i32_u32)
WRAP_CONV(unsigned int, int, u32_i32)
WRAP_CONV(long, unsigned long, i64_u64)
WRAP_CONV(unsigned long, long, u64_i64)
