/* Engine K harness for C19 (time watchdogs): model timer, signal injection, event sequence.
   Linked with the C translation of the real Watchdog code (kernels/c19_watchdog.cc). */
#include "ir2c_rt.h"
#ifndef NATIVE_DRIVER
#include <assert.h>
#endif
#ifndef NW
#define NW 2          /* simultaneously existing watchdogs */
#endif
#ifndef NEV
#define NEV 4         /* events of the history */
#endif
#ifndef MAXDELAY_S
#define MAXDELAY_S 2  /* delays: 1 centisecond .. MAXDELAY_S seconds + 99 centiseconds */
#endif
#ifndef MAXADV_S
#define MAXADV_S 1    /* largest advance of the clock between two instrumented instructions: MAXADV_S s + 999999 us */
#endif
#ifndef MAXSIG
#define MAXSIG 3      /* signal deliveries per history */
#endif
#ifdef NATIVE_DRIVER
extern unsigned rt_kinds[], rt_args[], rt_nev;
#endif
int ir2c_threw;
/* every nondeterministic draw is logged, so that a counterexample trace can be replayed natively */
static long tl[1024]; static unsigned tn;
#define LOG_(v) (tl[tn < 1023 ? tn++ : 1023] = (long) (v))
unsigned long nondet_ulong(void); unsigned int nondet_uint(void); long nondet_long(void);
static long draw_long(void) { long v = nondet_long(); LOG_(v); return v; }
static unsigned long draw_ulong(void) { unsigned long v = nondet_ulong(); LOG_(v); return v; }
static unsigned int draw_uint(void) { unsigned int v = nondet_uint(); LOG_(v); return v; }
void ir2c_init_globals(void);
void k_static_init(void); void k_wd_initialize(void); char* k_wd_create(unsigned long csecs, unsigned int idx); void k_wd_destroy(char* w); void k_wd_signal(void);
unsigned int k_wd_clock_running(void); unsigned int k_wd_pending_empty(void);

struct itv { long is, ius, vs, vus; };
/* model time: seconds and microseconds kept apart (the representation of the code under test), so that the
   verification conditions contain no division */
typedef struct { long s, us; } T;
static T t_add(T a, T b) { T r; r.s = a.s + b.s; r.us = a.us + b.us; if (r.us >= 1000000L) { r.us -= 1000000L; r.s += 1; } return r; }
static T t_sub(T a, T b) { T r; r.s = a.s - b.s; r.us = a.us - b.us; if (r.us < 0) { r.us += 1000000L; r.s -= 1; } return r; }   /* a >= b */
static int t_le(T a, T b) { return a.s < b.s || (a.s == b.s && a.us <= b.us); }
static int t_lt(T a, T b) { return a.s < b.s || (a.s == b.s && a.us < b.us); }
static T nondet_T(long max_s) { T d; d.s = draw_long(); d.us = draw_long(); __CPROVER_assume(d.s >= 0 && d.s <= max_s && d.us >= 0 && d.us < 1000000L); return d; }
static T now;                             /* timer time */
static int armed; static T due;
static int in_handler, signals;
static int started[NW], returned[NW], acted[NW], dead[NW], dying[NW];
static T t_entry[NW], t_return[NW], delay[NW], t_act[NW];
static T last_quiet;
static const T quantum = { 0, 10000L };   /* Watchdog::reschedule_time: one centisecond */

unsigned int verif_setitimer(unsigned int which, char* value, char* old) {
  struct itv* v = (struct itv*) value; (void) which; (void) old;
  if (v->vs == 0 && v->vus == 0) armed = 0;
  else { T r; r.s = v->vs; r.us = v->vus; __CPROVER_assert(r.s >= 0 && r.us >= 0 && r.us < 1000000L, "setitimer is given a valid time"); armed = 1; due = t_add(now, r); }
  return 0;
}
unsigned int verif_getitimer(unsigned int which, char* value) {
  struct itv* v = (struct itv*) value; (void) which;
  T rem; rem.s = 0; rem.us = 0;
  if (armed) rem = t_sub(due, now);
  v->is = 0; v->ius = 0; v->vs = rem.s; v->vus = rem.us;
  return 0;
}
unsigned int verif_sigaction(unsigned int s, char* a, char* o) { (void) s; (void) a; (void) o; return 0; }
unsigned int sigemptyset(char* m) { (void) m; return 0; }

/* the action of watchdog idx runs (called by the real Handler_Function::act) */
void verif_act(unsigned int idx) {
  assert(idx < NW && started[idx]);
  assert(!dead[idx]);                                   /* never after its destruction has returned */
  assert(!acted[idx]);                                  /* at most once */
  assert(t_le(t_add(t_entry[idx], delay[idx]), now));   /* never early */
  for (unsigned j = 0; j < NW; ++j)                     /* deadline order */
    if (j != idx && returned[j] && !acted[j] && !dead[j] && !dying[j])
      assert(!t_lt(t_add(t_return[j], delay[j]), t_add(t_entry[idx], delay[idx])));
  acted[idx] = 1; t_act[idx] = now;
}
/* the clock advances by d; the one-shot timer fires the moment it is due */
static void tick(T d) {
  if (in_handler) return;
  T then = t_add(now, d);
  if (armed && t_le(due, then)) {
    if (signals >= MAXSIG) { __CPROVER_assume(0); }
    ++signals; now = due; armed = 0; in_handler = 1; k_wd_signal(); in_handler = 0;
  }
  else now = then;
}
/* called after every store / call of the instrumented bookkeeping functions */
void verif_maybe_signal(void) {
  if (in_handler) return;
  tick(nondet_T(MAXADV_S));
}
/* between API calls: no alive watchdog may be left without a wake-up that comes in time */
static void quiescent(void) {
  for (unsigned i = 0; i < NW; ++i)
    if (returned[i] && !dead[i] && !acted[i]) {
      assert(armed);                                                       /* no lost wake-up */
      T latest = t_add(t_return[i], delay[i]);
      if (t_lt(latest, last_quiet)) latest = last_quiet;
      assert(t_le(due, t_add(latest, quantum)));                           /* prompt: at most one reschedule quantum late */
    }
}
void harness_watchdog(void) {
  char* w[NW];
  ir2c_init_globals(); k_static_init(); k_wd_initialize();
  unsigned created = 0;
#ifdef NATIVE_DRIVER
  for (unsigned e = 0; e < rt_nev; ++e) {
#else
  for (unsigned e = 0; e < NEV; ++e) {
#endif
#if defined(NATIVE_DRIVER)
    unsigned kind = rt_kinds[e];
#elif defined(KINDS)
    static const unsigned kinds_[NEV] = KINDS; unsigned kind = kinds_[e];     /* the shape of the history is a parameter of the run */
#else
    unsigned kind = draw_uint(); __CPROVER_assume(kind < 3);
#endif
    if (kind == 0 && created < NW) {
      long ds = draw_long(), dc = draw_long(); __CPROVER_assume(ds >= 0 && ds <= MAXDELAY_S && dc >= 0 && dc < 100 && (ds > 0 || dc > 0));
      long cs = ds * 100 + dc;                       /* the delay handed to the constructor, in centiseconds */
      unsigned i = created++;
      delay[i].s = ds; delay[i].us = dc * 10000L; t_entry[i] = now; started[i] = 1;
      w[i] = k_wd_create((unsigned long) cs, i);
      assert(!ir2c_threw);
      t_return[i] = now; returned[i] = 1; last_quiet = now;
    }
    else if (kind == 1) {
#if defined(NATIVE_DRIVER)
      unsigned i = rt_args[e]; __CPROVER_assume(i < created && !dead[i] && !dying[i]);
#elif defined(KINDS)
      static const unsigned args_[NEV] = ARGS; unsigned i = args_[e]; __CPROVER_assume(i < created && !dead[i] && !dying[i]);
#else
      unsigned i = draw_uint(); __CPROVER_assume(i < created && !dead[i] && !dying[i]);
#endif
      dying[i] = 1;
      k_wd_destroy(w[i]);
      assert(!ir2c_threw);
      dead[i] = 1; last_quiet = now;
    }
    else {
      tick(nondet_T(2 * MAXADV_S + 1)); last_quiet = now;
    }
    quiescent();
  }
#ifdef WITNESS
  assert(0);
#endif
}
