/* Engine K harness for C19 (time watchdogs): model timer, signal injection, event sequence.
   Linked with the C translation of the real Watchdog code (kernels/c19_watchdog.cc). */
#include "ir2c_rt.h"
#include <assert.h>
#ifndef NW
#define NW 2          /* simultaneously existing watchdogs */
#endif
#ifndef NEV
#define NEV 4         /* events of the history */
#endif
#ifndef MAXCS
#define MAXCS 300     /* delays in centiseconds: 1..MAXCS */
#endif
#ifndef MAXADV
#define MAXADV 2000000UL   /* largest single advance of the clock, microseconds */
#endif
#ifndef MAXSIG
#define MAXSIG 3      /* signal deliveries per history */
#endif
int ir2c_threw;
unsigned long nondet_ulong(void); unsigned int nondet_uint(void); long nondet_long(void);
void ir2c_init_globals(void);
void k_static_init(void); void k_wd_initialize(void); char* k_wd_create(unsigned long csecs, unsigned int idx); void k_wd_destroy(char* w); void k_wd_signal(void);
unsigned int k_wd_clock_running(void); unsigned int k_wd_pending_empty(void);

struct itv { long is, ius, vs, vus; };
static unsigned long now;                 /* timer time, microseconds */
static int armed; static unsigned long due;
static int in_handler, signals;
static int started[NW], returned[NW], acted[NW], dead[NW], dying[NW];
static unsigned long t_entry[NW], t_return[NW], delay_us[NW], t_act[NW];
static unsigned long last_quiet;

unsigned int verif_setitimer(unsigned int which, char* value, char* old) {
  struct itv* v = (struct itv*) value; (void) which; (void) old;
  unsigned long rem = (unsigned long) v->vs * 1000000UL + (unsigned long) v->vus;
  if (rem == 0) armed = 0; else { armed = 1; due = now + rem; }
  return 0;
}
unsigned int verif_getitimer(unsigned int which, char* value) {
  struct itv* v = (struct itv*) value; (void) which;
  unsigned long rem = armed ? due - now : 0;
  v->is = 0; v->ius = 0; v->vs = (long) (rem / 1000000UL); v->vus = (long) (rem % 1000000UL);
  return 0;
}
unsigned int verif_sigaction(unsigned int s, char* a, char* o) { (void) s; (void) a; (void) o; return 0; }
unsigned int sigemptyset(char* m) { (void) m; return 0; }

/* the action of watchdog idx runs (called by the real Handler_Function::act) */
void verif_act(unsigned int idx) {
  assert(idx < NW && started[idx]);
  assert(!dead[idx]);                                   /* never after its destruction has returned */
  assert(!acted[idx]);                                  /* at most once */
  assert(now >= t_entry[idx] + delay_us[idx]);          /* never early */
  for (unsigned j = 0; j < NW; ++j)                     /* deadline order */
    if (j != idx && returned[j] && !acted[j] && !dead[j] && !dying[j])
      assert(!(t_return[j] + delay_us[j] < t_entry[idx] + delay_us[idx]));
  acted[idx] = 1; t_act[idx] = now;
}
/* the clock advances by d; the one-shot timer fires the moment it is due */
static void tick(unsigned long d) {
  if (in_handler) return;
  if (armed && now + d >= due) {
    if (signals >= MAXSIG) { __CPROVER_assume(0); }
    ++signals; now = due; armed = 0; in_handler = 1; k_wd_signal(); in_handler = 0;
  }
  else now += d;
}
/* called after every store / call of the instrumented bookkeeping functions */
void verif_maybe_signal(void) {
  unsigned long d = nondet_ulong(); __CPROVER_assume(d <= MAXADV);
  tick(d);
}
/* between API calls: no alive watchdog may be left without a wake-up that comes in time */
static void quiescent(void) {
  for (unsigned i = 0; i < NW; ++i)
    if (returned[i] && !dead[i] && !acted[i]) {
      assert(armed);                                                       /* no lost wake-up */
      unsigned long latest = t_return[i] + delay_us[i];
      if (latest < last_quiet) latest = last_quiet;
      assert(due <= latest + 10000UL);                                     /* prompt: at most one reschedule quantum late */
    }
}
void harness_watchdog(void) {
  char* w[NW];
  ir2c_init_globals(); k_static_init(); k_wd_initialize();
  unsigned created = 0;
  for (unsigned e = 0; e < NEV; ++e) {
    unsigned kind = nondet_uint(); __CPROVER_assume(kind < 3);
    if (kind == 0 && created < NW) {
      long cs = nondet_long(); __CPROVER_assume(cs >= 1 && cs <= MAXCS);
      unsigned i = created++;
      delay_us[i] = (unsigned long) cs * 10000UL; t_entry[i] = now; started[i] = 1;
      w[i] = k_wd_create((unsigned long) cs, i);
      assert(!ir2c_threw);
      t_return[i] = now; returned[i] = 1; last_quiet = now;
    }
    else if (kind == 1) {
      unsigned i = nondet_uint(); __CPROVER_assume(i < created && !dead[i] && !dying[i]);
      dying[i] = 1;
      k_wd_destroy(w[i]);
      assert(!ir2c_threw);
      dead[i] = 1; last_quiet = now;
    }
    else {
      unsigned long d = nondet_ulong(); __CPROVER_assume(d <= 4 * MAXADV);
      tick(d); last_quiet = now;
    }
    quiescent();
  }
#ifdef WITNESS
  assert(0);
#endif
}
