// Engine K kernels for C19: the real Watchdog (src/Watchdog.cc, Watchdog_inlines.hh, Pending_List,
// EList, Time, Handler) and Threshold_Watcher<Weightwatch_Traits> code, with the three system calls
// renamed so that the C harness supplies a model timer.
#include <sys/time.h>
#include <csignal>
extern "C" int verif_getitimer(int which, struct itimerval* value);
extern "C" int verif_setitimer(int which, const struct itimerval* value, struct itimerval* old_value);
extern "C" int verif_sigaction(int signum, const struct sigaction* act, struct sigaction* old);
#define getitimer verif_getitimer
#define setitimer verif_setitimer
#define sigaction(a, b, c) verif_sigaction(a, b, c)
#include "ppl-config.h"
#include "version.hh"
#include "ppl_include_files.hh"
#include "Watchdog.cc"
#include "Time.cc"
#include "Handler.cc"
#include "globals.cc"
#undef sigaction
using namespace Parma_Polyhedra_Library;

extern "C" void verif_act(int idx);       // supplied by the harness: records the instant of the action
static void act0() { verif_act(0); }
static void act1() { verif_act(1); }
static void act2() { verif_act(2); }
static void (*const acts[3])() = { act0, act1, act2 };

// static initialisation of the objects involved (the module's own dynamic initialisers, re-run on raw storage)
extern "C" __attribute__((noinline)) void k_static_init() {
  new (&Watchdog::pending) Watchdog::WD_Pending_List();
  new (&Watchdog::reschedule_time) Implementation::Watchdog::Time(1);
  new (&Watchdog::time_so_far) Implementation::Watchdog::Time();
  new (&Watchdog::last_time_requested) Implementation::Watchdog::Time();
  new (&Threshold_Watcher<Weightwatch_Traits>::init) Threshold_Watcher<Weightwatch_Traits>::Initialize();
}
extern "C" __attribute__((noinline)) void k_wd_initialize() { Watchdog::initialize(); }
extern "C" __attribute__((noinline)) void* k_wd_create(long csecs, unsigned idx) { return new Watchdog(csecs, idx == 0 ? act0 : idx == 1 ? act1 : act2); }
extern "C" __attribute__((noinline)) void k_wd_destroy(void* w) { delete static_cast<Watchdog*>(w); }
extern "C" __attribute__((noinline)) void k_wd_signal() { PPL_handle_timeout(0); }
// observers for the invariant
extern "C" __attribute__((noinline)) int k_wd_clock_running() { return Watchdog::alarm_clock_running; }
extern "C" __attribute__((noinline)) int k_wd_pending_empty() { return Watchdog::pending.empty(); }

// deterministic (weight-based) watcher
typedef Threshold_Watcher<Weightwatch_Traits> Weightwatch;
extern "C" __attribute__((noinline)) void* k_ww_create(unsigned long long delta, unsigned idx) { return new Weightwatch(delta, idx == 0 ? act0 : idx == 1 ? act1 : act2); }
extern "C" __attribute__((noinline)) void k_ww_destroy(void* w) { delete static_cast<Weightwatch*>(w); }
extern "C" __attribute__((noinline)) void k_ww_add_weight(unsigned long long d) { Weightwatch_Traits::weight += d; }
extern "C" __attribute__((noinline)) unsigned long long k_ww_weight() { return Weightwatch_Traits::weight; }
extern "C" __attribute__((noinline)) void k_ww_check() { if (Weightwatch_Traits::check_function != 0) Weightwatch_Traits::check_function(); }
