/* Native driver shared by the translator validation and the counterexample replay of C19:
   usage: drv <wd|ww> <kinds, e.g. 0,0,2> <args, e.g. 0,0,0> <draw values...> */
#include <stdio.h>
#include <stdlib.h>
#include <string.h>
unsigned rt_kinds[64], rt_args[64], rt_nev;
static long script[2048]; static int sp, sn;
unsigned long nondet_ulong(void) { return sp < sn ? (unsigned long) script[sp++] : 0; }
unsigned int nondet_uint(void) { return (unsigned int) nondet_ulong(); }
long nondet_long(void) { return (long) nondet_ulong(); }
static int fails;
#define assert(c) do { if (!(c)) { ++fails; printf("ASSERT-FAIL line %d: %s\n", __LINE__, #c); } } while (0)
#define __CPROVER_assume(c) do { if (!(c)) { printf("ASSUME-FALSE line %d\n", __LINE__); exit(0); } } while (0)
#define __CPROVER_assert(c, m) do { if (!(c)) { ++fails; printf("ASSERT-FAIL %s\n", m); } } while (0)
#define NATIVE_DRIVER 1
#ifdef DRV_WW
#include "c19_ww_harness.c"
#define RUN harness_weightwatch
#else
#include "c19_harness.c"
#define RUN harness_watchdog
#endif
static unsigned parse(const char* s, unsigned* out) { unsigned n = 0; char* e; while (*s) { out[n++] = (unsigned) strtoul(s, &e, 10); s = *e ? e + 1 : e; } return n; }
int main(int argc, char** argv) {
  if (argc < 3) return 2;
  rt_nev = parse(argv[1], rt_kinds); parse(argv[2], rt_args);
  for (int i = 3; i < argc && sn < 2048; ++i) script[sn++] = strtol(argv[i], 0, 10);
  RUN();
  for (unsigned i = 0; i < NW; ++i)
#ifdef DRV_WW
    printf("w%u started=%d acted=%d dead=%d threshold=%lu\n", i, started[i], acted[i], dead[i], threshold[i]);
  printf("weight=%lu\n", k_ww_weight());
#else
    printf("w%u started=%d acted=%d dead=%d t_act=%ld.%06ld\n", i, started[i], acted[i], dead[i], t_act[i].s, t_act[i].us);
  printf("now=%ld.%06ld armed=%d due=%ld.%06ld signals=%d\n", now.s, now.us, armed, due.s, due.us, signals);
#endif
  printf("RUN-DONE fails=%d draws=%u\n", fails, tn);
  return fails ? 1 : 0;
}
