/* Engine K harness for C19 (deterministic, weight-based watcher: Threshold_Watcher<Weightwatch_Traits>). */
#include "ir2c_rt.h"
#ifndef NATIVE_DRIVER
#include <assert.h>
#endif
#ifndef NW
#define NW 3
#endif
#ifndef NEV
#define NEV 5
#endif
#ifdef NATIVE_DRIVER
extern unsigned rt_kinds[], rt_args[], rt_nev;
#endif
int ir2c_threw;
/* every nondeterministic draw is logged, so that a counterexample trace can be replayed natively */
static long tl[1024]; static unsigned tn;
#define LOG_(v) (tl[tn < 1023 ? tn++ : 1023] = (long) (v))
unsigned long nondet_ulong(void); unsigned int nondet_uint(void);
static unsigned long draw_ulong(void) { unsigned long v = nondet_ulong(); LOG_(v); return v; }
static unsigned int draw_uint(void) { unsigned int v = nondet_uint(); LOG_(v); return v; }
void ir2c_init_globals(void);
void k_static_init(void); char* k_ww_create(unsigned long delta, unsigned int idx); void k_ww_destroy(char* w);
void k_ww_add_weight(unsigned long d); unsigned long k_ww_weight(void); void k_ww_check(void);
void verif_maybe_signal(void) {}
unsigned int verif_setitimer(unsigned int a, char* b, char* c) { (void) a; (void) b; (void) c; return 0; }
unsigned int verif_getitimer(unsigned int a, char* b) { (void) a; (void) b; return 0; }
unsigned int verif_sigaction(unsigned int a, char* b, char* c) { (void) a; (void) b; (void) c; return 0; }

static int started[NW], acted[NW], dead[NW], in_check;
static unsigned long threshold[NW];

void verif_act(unsigned int idx) {
  assert(idx < NW && started[idx]);
  assert(in_check);                                  /* only a check triggers */
  assert(!dead[idx]);                                /* never after destruction */
  assert(!acted[idx]);                               /* at most once */
  assert(k_ww_weight() >= threshold[idx]);           /* not before the threshold is reached */
  for (unsigned j = 0; j < NW; ++j)                  /* in threshold order */
    if (j != idx && started[j] && !acted[j] && !dead[j]) assert(!(threshold[j] < threshold[idx]));
  acted[idx] = 1;
}
void harness_weightwatch(void) {
  char* w[NW];
  ir2c_init_globals(); k_static_init();
  unsigned created = 0;
  unsigned long w0 = draw_ulong(); __CPROVER_assume(w0 <= (1UL << 40));
  k_ww_add_weight(w0);                               /* arbitrary weight accumulated before */
#ifdef NATIVE_DRIVER
  for (unsigned e = 0; e < rt_nev; ++e) {
#else
  for (unsigned e = 0; e < NEV; ++e) {
#endif
#if defined(NATIVE_DRIVER)
    unsigned kind = rt_kinds[e];
#elif defined(KINDS)
    static const unsigned kinds_[NEV] = KINDS; unsigned kind = kinds_[e];
#else
    unsigned kind = draw_uint(); __CPROVER_assume(kind < 3);
#endif
    if (kind == 0 && created < NW) {
      unsigned long delta = draw_ulong(); __CPROVER_assume(delta >= 1 && delta <= (1UL << 40));
      unsigned i = created++;
      threshold[i] = k_ww_weight() + delta; started[i] = 1;
      w[i] = k_ww_create(delta, i);
      assert(!ir2c_threw);
    }
    else if (kind == 1) {
#if defined(NATIVE_DRIVER)
      unsigned i = rt_args[e]; __CPROVER_assume(i < created && !dead[i]);
#elif defined(KINDS)
      static const unsigned args_[NEV] = ARGS; unsigned i = args_[e]; __CPROVER_assume(i < created && !dead[i]);
#else
      unsigned i = draw_uint(); __CPROVER_assume(i < created && !dead[i]);
#endif
      k_ww_destroy(w[i]);
      assert(!ir2c_threw);
      dead[i] = 1;
    }
    else {
      unsigned long d = draw_ulong(); __CPROVER_assume(d <= (1UL << 40));
      k_ww_add_weight(d);
      in_check = 1; k_ww_check(); in_check = 0;
      /* the first check after the weight reached a threshold triggers it */
      for (unsigned i = 0; i < NW; ++i)
        if (started[i] && !dead[i] && !acted[i]) assert(k_ww_weight() <= threshold[i]);   /* (weight == threshold: the library's modular comparison does not trigger yet; left open) */
    }
  }
#ifdef WITNESS
  assert(0);
#endif
}
