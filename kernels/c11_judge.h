/* Oracle for checked integer primitives (Engine K / C11, C03).
   The exact result is the rational en/ed (ed > 0) in a wide type; `s' is the stored value. */
#include <assert.h>
/* The including harness defines WTYPE (wide signed type holding every exact value) and MULED(v) = v * ed
   (as a plain value when ed == 1, as a shift when ed is a power of two: keeps the SAT encoding small). */
typedef WTYPE W;
typedef unsigned WTYPE UW;
/* shift of a possibly negative wide value without C undefined behaviour */
#define SHL(v, k) ((W)((UW)(v) << (k)))
int ir2c_threw;
static unsigned g_e;   /* exponent of the *_2exp harnesses (used by MULED) */
unsigned nondet_uint(void);
/* r: returned Result; pol: 0 = Check_Overflow_Policy (no infinities), 1 = WRD_Extended_Number_Policy */
/* prod: for fused multiply-add/sub, the exact product x*y (has_prod != 0): when the product alone overflows and the
   accumulator has the opposite sign the primitive gives up with V_UNKNOWN_{NEG,POS}_OVERFLOW (classified, nothing claimed). */
static void judge(unsigned r, W s, W en, W ed, unsigned dir, W tmin, W tmax, int pol, W pinf, W minf, W nan, int has_prod, W prod) {
  unsigned rel = r & 7u, cls = r & 0x30u, ovf = r & 0x40u, unrep = r & 0x80u, d = dir & 7u;
  W lo = pol ? tmin : tmin, hi = pol ? tmax : tmax;      /* finite range of the type under the policy */
  /* stored*ed compared with en decides stored vs exact */
  if (has_prod && r == (0x30u | (10u << 8))) { assert(prod < tmin || prod > tmax); return; }   /* V_UNKNOWN_NEG_OVERFLOW */
  if (has_prod && r == (0x30u | (11u << 8))) { assert(prod < tmin || prod > tmax); return; }   /* V_UNKNOWN_POS_OVERFLOW */
  assert((r >> 8) == 0);                                  /* no NaN sub-codes for these operations */
  assert(cls != 0x30u);                                   /* never classified NaN on defined inputs */
  if (unrep) {                                            /* nothing representable was stored */
    assert(pol == 0);
    if (r == (0x80u | 0x10u | 4u)) { assert(en < MULED(lo)); assert(d != 1u); }        /* V_GT_MINUS_INFINITY | V_UNREPRESENTABLE */
    else if (r == (0x80u | 0x20u | 2u)) { assert(en > MULED(hi)); assert(d != 0u); }   /* V_LT_PLUS_INFINITY | V_UNREPRESENTABLE */
    else assert(0);
    return;
  }
  if (cls == 0x10u) {                                     /* minus infinity stored */
    assert(pol == 1 && s == minf);
    assert(r == (0x10u | 4u));                            /* V_GT_MINUS_INFINITY: exact > -inf */
    assert(en < MULED(lo)); assert(d != 1u);                /* only on negative overflow, never when rounding up */
    return;
  }
  if (cls == 0x20u) {
    assert(pol == 1 && s == pinf);
    assert(r == (0x20u | 2u));                            /* V_LT_PLUS_INFINITY */
    assert(en > MULED(hi)); assert(d != 0u);
    return;
  }
  if (ovf) {
    if (r == (0x40u | 2u)) { assert(s == lo); assert(en < MULED(lo)); assert(d == 1u); }     /* V_LT_INF: rounded up to the minimum */
    else if (r == (0x40u | 4u)) { assert(s == hi); assert(en > MULED(hi)); assert(d == 0u); } /* V_GT_SUP */
    else assert(0);
    return;
  }
  /* normal class: the stored value is a finite number of the type and `exact rel stored' holds */
  assert(rel != 0u);
  assert(s >= lo && s <= hi);
  if (pol == 1) assert(s != nan);
  {
    W se = MULED(s);
    if (!(rel & 1u)) assert(en != se);
    if (!(rel & 2u)) assert(!(en < se));
    if (!(rel & 4u)) assert(!(en > se));
    if (d == 1u) assert(se >= en);                        /* ROUND_UP: never below the exact result */
    if (d == 0u) assert(se <= en);                        /* ROUND_DOWN: never above */
    if ((dir & 8u) && d != 6u) assert(rel == 1u || rel == 2u || rel == 4u);   /* ROUND_STRICT_RELATION (not with ROUND_IGNORE) */
    /* the stored value is one of the two neighbours of the exact result */
    assert(se - en < ed && en - se < ed);
  }
}
